#!/usr/bin/env python3
"""Seeded generator of stratified Ascent programs for the thorough tier (DESIGN.md 2.5 iii).

Emits Rust source with one `defprog!` per program. Programs are range-restricted, every value is
kept inside a small domain by `% DOM`, negation and aggregation only reach strictly lower strata,
lattice columns are only used monotonically (copied into the same lattice or tested with an
upward-closed `>=`). The output is committed (src/programs/generated.rs) after it was compiled and
run clean on the unchanged tree, so a thorough run never depends on code generated at check time.
"""
import random, sys

DOM = 7

def gen_program(rng, idx):
    name = f"gen{idx:02d}"
    n_edb = rng.randint(1, 3)
    n_idb = rng.randint(2, 5)
    rels = []  # (name, arity, kind, level) kind: 'edb','idb','lat','cnt'
    for i in range(n_edb):
        rels.append((f"e{i}", rng.choice([1, 2, 2, 2, 3]), 'edb', 0))
    n_levels = rng.randint(1, 3)
    for i in range(n_idb):
        rels.append((f"r{i}", rng.choice([1, 2, 2, 3]), 'idb', rng.randint(1, n_levels)))
    has_lat = rng.random() < 0.5
    if has_lat:
        rels.append(("lat0", rng.choice([2, 2, 3]), 'lat', rng.randint(1, n_levels)))
    has_cnt = rng.random() < 0.4 and n_levels >= 1
    positive = True
    rules = []

    def body_clause(rel, bound, allow_new=True):
        rname, ar, kind, lvl = rel
        args = []
        newv = []
        ncols = ar
        for c in range(ncols):
            lattice_val = (kind == 'lat' and c == ar - 1)
            r = rng.random()
            if lattice_val:
                v = f"v{len(bound) + len(newv)}"
                newv.append((v, 'latval'))
                args.append(v)
            elif r < 0.12:
                args.append(str(rng.randrange(DOM)))
            elif r < 0.22:
                args.append("_")
            elif bound and r < 0.6:
                cand = [b for b, t in bound if t == 'ref']
                if cand:
                    args.append(rng.choice(cand))
                else:
                    v = f"x{len(bound) + len(newv)}"; newv.append((v, 'ref')); args.append(v)
            else:
                v = f"x{len(bound) + len(newv)}"
                newv.append((v, 'ref'))
                args.append(v)
        return f"{rname}({', '.join(args)})", newv

    def head_arg(bound):
        refs = [b for b, t in bound if t == 'ref']
        owned = [b for b, t in bound if t == 'own']
        r = rng.random()
        if refs and r < 0.7:
            return rng.choice(refs)
        if owned and r < 0.85:
            return rng.choice(owned)
        if refs and r < 0.95:
            return f"(*{rng.choice(refs)} + {rng.randint(1,3)}) % {DOM}"
        return str(rng.randrange(DOM))

    for rel in rels:
        rname, ar, kind, lvl = rel
        if kind == 'edb':
            continue
        n_rules = rng.randint(1, 3)
        for _ in range(n_rules):
            pos_pool = [r for r in rels if r[3] <= lvl and r[2] in ('edb', 'idb', 'lat')]
            # a lattice may only be read inside its own stratum by rules whose head is that lattice
            # (monotone recursion) or through an upward-closed test; reading it from a higher
            # stratum is always fine
            def ok(r):
                if r[2] != 'lat':
                    return True
                return r[3] < lvl or (kind == 'lat' and r[0] == rname)
            pos_pool = [r for r in pos_pool if ok(r)]
            if not pos_pool:
                pos_pool = [r for r in rels if r[2] == 'edb']
            bound = []
            body = []
            n_cl = rng.randint(1, 3)
            for ci in range(n_cl):
                cl, newv = body_clause(rng.choice(pos_pool), bound)
                body.append(cl)
                bound.extend(newv)
            refs = [b for b, t in bound if t == 'ref']
            latvals = [b for b, t in bound if t == 'latval']
            # conditions
            if len(refs) >= 2 and rng.random() < 0.4:
                a, b = rng.sample(refs, 2)
                body.append(f"if *{a} {rng.choice(['!=', '<', '<='])} *{b}")
            if refs and rng.random() < 0.3:
                a = rng.choice(refs); b = rng.choice(refs)
                z = f"z{len(bound)}"
                body.append(f"let {z} = (*{a} + *{b}) % {DOM}")
                bound.append((z, 'own'))
            if refs and rng.random() < 0.15:
                a = rng.choice(refs)
                g = f"g{len(bound)}"
                body.append(f"for {g} in 0..(*{a}).min(2)")
                bound.append((g, 'own'))
            # negation over strictly lower strata
            lower = [r for r in rels if r[3] < lvl and r[2] in ('edb', 'idb')]
            if lower and refs and rng.random() < 0.25:
                nr = rng.choice(lower)
                nargs = [rng.choice(refs + [str(rng.randrange(DOM))]) for _ in range(nr[1])]
                body.append(f"!{nr[0]}({', '.join(nargs)})")
                positive = False
            if not bound and not body:
                continue
            # head
            if kind == 'lat':
                keys = [head_arg(bound) for _ in range(ar - 1)]
                if latvals and rng.random() < 0.6:
                    val = f"(*{rng.choice(latvals)}).min({DOM * 2})"
                elif refs:
                    val = f"*{rng.choice(refs)}"
                else:
                    val = str(rng.randrange(DOM))
                head = f"{rname}({', '.join(keys + [val])})"
            else:
                # a relation may read a lattice value only through an upward-closed test
                for lv in latvals:
                    body.append(f"if *{lv} >= {rng.randrange(DOM)}")
                head = f"{rname}({', '.join(head_arg(bound) for _ in range(ar))})"
            rules.append(f"{head} <-- {', '.join(body)};")
    cnt_rels = []
    if has_cnt:
        tgt = rng.choice([r for r in rels if r[2] in ('edb', 'idb')])
        lvl = tgt[3] + 1
        positive = False
        cnt_rels.append(("cnt0", 2, 'cnt', lvl))
        key_src = rng.choice([r for r in rels if r[2] == 'edb'])
        ksargs = ["k"] + ["_"] * (key_src[1] - 1)
        targs = ["k"] + ["_"] * (tgt[1] - 1)
        rules.append(f"cnt0(k, n) <-- {key_src[0]}({', '.join(ksargs)}), agg n = ascent::aggregators::count() in {tgt[0]}({', '.join(targs)});")
    # declarations
    decl = []
    for rname, ar, kind, lvl in rels + cnt_rels:
        if kind == 'lat':
            decl.append(f"      lattice {rname}({', '.join(['u32'] * ar)}) [];")
        elif kind == 'cnt':
            decl.append(f"      relation {rname}(u32, usize) [];")
        elif kind == 'edb':
            decl.append(f"      relation {rname}({', '.join(['u32'] * ar)}) [input];")
        else:
            flag = "input" if rng.random() < 0.3 else ""
            decl.append(f"      relation {rname}({', '.join(['u32'] * ar)}) [{flag}];")
    rules_s = "\n".join("      " + r for r in rules)
    # count() over a Vec-backed index doubles on a re-run (open C13 finding): programs with an
    # aggregate therefore only take part in the single-run checks
    tags = '"c02", "c05", "generated"' if has_cnt else '"c02", "c05", "c13", "c14", "c20", "generated"'
    return f"""defprog! {{
   name: {name};
   timeouts: {'no' if has_cnt else 'yes'};
   positive: {'true' if positive else 'false'};
   tags: [{tags}];
   rels: {{
{chr(10).join(decl)}
   }}
   gens: [("random", gens::random), ("small", gens::small)];
   rules: {{
{rules_s}
   }}
}}
""", name

def main():
    seed = int(sys.argv[1]) if len(sys.argv) > 1 else 20261003
    n = int(sys.argv[2]) if len(sys.argv) > 2 else 30
    rng = random.Random(seed)
    out = ["//! GENERATED by /verif/tools/genprogs.py (seed %d, %d programs); committed after a clean run on the\n//! unchanged tree. Do not edit by hand.\n#![allow(unused_parens)]\nuse crate::gens;\nuse crate::prog::ProgramDef;\nuse crate::defprog;\n" % (seed, n)]
    names = []
    for i in range(n):
        src, name = gen_program(rng, i)
        out.append(src)
        names.append(name)
    out.append("pub fn all() -> Vec<ProgramDef> {\n   vec![" + ", ".join(f"{n}::def()" for n in names) + "]\n}\n")
    sys.stdout.write("\n".join(out))

if __name__ == "__main__":
    main()

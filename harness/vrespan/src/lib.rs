//! `respan! { <macro name> <body> }` expands to `::ascent::<macro name>! { <body> }` with every token
//! given the same span (this invocation's call site).
//!
//! Why: the corpus programs are assembled by `macro_rules!` (`defprog!`), so the tokens that reach
//! `ascent!` come from two hygiene contexts (relation names and rules from the program definition,
//! `pub struct P;` and the invocation itself from the `macro_rules!` body). Generated code that
//! declares a local with one of these spans and uses it with the other (harmless when `ascent!` is
//! invoked directly, where there is only one context) would then not compile, and a check that cannot
//! build has no verdict. Giving all tokens one span makes the corpus equivalent to direct invocations.
use proc_macro::{Delimiter, Group, Ident, Punct, Spacing, Span, TokenStream, TokenTree};

fn respan_stream(ts: TokenStream, span: Span) -> TokenStream {
   ts.into_iter()
      .map(|tt| match tt {
         TokenTree::Group(g) => {
            let mut ng = Group::new(g.delimiter(), respan_stream(g.stream(), span));
            ng.set_span(span);
            TokenTree::Group(ng)
         },
         mut other => {
            other.set_span(span);
            other
         },
      })
      .collect()
}

#[proc_macro]
pub fn respan(input: TokenStream) -> TokenStream {
   let span = Span::call_site();
   let mut it = input.into_iter();
   let mac = match it.next() {
      Some(TokenTree::Ident(i)) => Ident::new(&i.to_string(), span),
      _ => panic!("respan!: expected the name of an ascent macro first"),
   };
   let body = respan_stream(it.collect(), span);
   let mut out: Vec<TokenTree> = vec![];
   let mut colons = |out: &mut Vec<TokenTree>| {
      let mut a = Punct::new(':', Spacing::Joint);
      a.set_span(span);
      let mut b = Punct::new(':', Spacing::Alone);
      b.set_span(span);
      out.push(TokenTree::Punct(a));
      out.push(TokenTree::Punct(b));
   };
   colons(&mut out);
   out.push(TokenTree::Ident(Ident::new("ascent", span)));
   colons(&mut out);
   out.push(TokenTree::Ident(mac));
   let mut bang = Punct::new('!', Spacing::Alone);
   bang.set_span(span);
   out.push(TokenTree::Punct(bang));
   let mut g = Group::new(Delimiter::Brace, body);
   g.set_span(span);
   out.push(TokenTree::Group(g));
   out.into_iter().collect()
}

//! Corpus of Ascent programs for the /verif deterministic-simulation harness.
pub mod val;
pub mod prog;
pub mod gens;
pub mod programs;

pub use prog::{GenFn, Input, Instance, ProgramDef, RelMeta, Variant};
pub use val::{Rng, Row, Val};

pub fn all_programs() -> Vec<ProgramDef> { programs::all() }

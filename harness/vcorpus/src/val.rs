//! Canonical, serialisable values and rows: what oracles compare and replay files contain.

use std::collections::BTreeSet;
use std::fmt;

use ascent::lattice::constant_propagation::ConstPropagation;
use ascent::lattice::set::Set;
use ascent::Dual;

#[derive(Clone, PartialEq, Eq, PartialOrd, Ord, Hash)]
pub enum Val {
   I(i64),
   S(String),
   /// tagged constructor: ("dual",[x]) ("some",[x]) ("none",[]) ("bot",[]) ("const",[x]) ("top",[])
   /// ("set",[..sorted..]) ("tup",[..])
   T(&'static str, Vec<Val>),
}

pub type Row = Vec<Val>;

impl fmt::Debug for Val {
   fn fmt(&self, f: &mut fmt::Formatter<'_>) -> fmt::Result {
      match self {
         Val::I(i) => write!(f, "{}", i),
         Val::S(s) => write!(f, "{:?}", s),
         Val::T(t, v) if v.is_empty() => write!(f, "{}", t),
         Val::T(t, v) => {
            write!(f, "{}(", t)?;
            for (i, x) in v.iter().enumerate() {
               if i > 0 {
                  write!(f, ",")?;
               }
               write!(f, "{:?}", x)?;
            }
            write!(f, ")")
         },
      }
   }
}

pub const TAGS: [&str; 8] = ["dual", "some", "none", "bot", "const", "top", "set", "tup"];

impl Val {
   pub fn as_i64(&self) -> i64 {
      match self {
         Val::I(i) => *i,
         v => panic!("expected integer value, got {:?}", v),
      }
   }
}

/// deterministic generator used for inputs (SplitMix64)
#[derive(Clone, Debug)]
pub struct Rng(pub u64);

impl Rng {
   pub fn new(seed: u64) -> Rng { Rng(seed) }
   pub fn next_u64(&mut self) -> u64 {
      self.0 = self.0.wrapping_add(0x9E3779B97F4A7C15);
      let mut z = self.0;
      z = (z ^ (z >> 30)).wrapping_mul(0xBF58476D1CE4E5B9);
      z = (z ^ (z >> 27)).wrapping_mul(0x94D049BB133111EB);
      z ^ (z >> 31)
   }
   pub fn below(&mut self, n: u64) -> u64 { if n == 0 { 0 } else { self.next_u64() % n } }
   pub fn range(&mut self, lo: u64, hi_incl: u64) -> u64 { lo + self.below(hi_incl - lo + 1) }
   pub fn chance(&mut self, permille: u64) -> bool { self.below(1000) < permille }
   pub fn pick<'a, T>(&mut self, xs: &'a [T]) -> &'a T { &xs[self.below(xs.len() as u64) as usize] }
   pub fn shuffle<T>(&mut self, xs: &mut [T]) {
      for i in (1..xs.len()).rev() {
         let j = self.below(i as u64 + 1) as usize;
         xs.swap(i, j);
      }
   }
   pub fn fork(&mut self) -> Rng { Rng(self.next_u64()) }
}

pub fn mix(a: u64, b: u64) -> u64 {
   let mut r = Rng(a ^ b.wrapping_mul(0xD6E8FEB86659FD93));
   r.next_u64()
}

/// A Rust column type with a canonical encoding.
pub trait ValType: Sized {
   fn to_val(&self) -> Val;
   fn from_val(v: &Val) -> Self;
   /// arbitrary value over a small domain (`dom` distinct base integers)
   fn arbitrary(rng: &mut Rng, dom: u64) -> Val;
}

macro_rules! int_valtype {
   ($($t:ty),*) => {$(
      impl ValType for $t {
         fn to_val(&self) -> Val { Val::I(*self as i64) }
         fn from_val(v: &Val) -> Self { v.as_i64() as $t }
         fn arbitrary(rng: &mut Rng, dom: u64) -> Val { Val::I(rng.below(dom.max(1)) as i64) }
      }
   )*};
}
int_valtype!(u8, u16, u32, u64, usize, i8, i16, i32, i64, isize);

impl ValType for bool {
   fn to_val(&self) -> Val { Val::I(*self as i64) }
   fn from_val(v: &Val) -> Self { v.as_i64() != 0 }
   fn arbitrary(rng: &mut Rng, _dom: u64) -> Val { Val::I(rng.below(2) as i64) }
}

impl ValType for String {
   fn to_val(&self) -> Val { Val::S(self.clone()) }
   fn from_val(v: &Val) -> Self {
      match v {
         Val::S(s) => s.clone(),
         v => panic!("expected string, got {:?}", v),
      }
   }
   fn arbitrary(rng: &mut Rng, dom: u64) -> Val { Val::S(format!("s{}", rng.below(dom.max(1)))) }
}

impl<T: ValType> ValType for Dual<T> {
   fn to_val(&self) -> Val { Val::T("dual", vec![self.0.to_val()]) }
   fn from_val(v: &Val) -> Self {
      match v {
         Val::T("dual", x) => Dual(T::from_val(&x[0])),
         v => panic!("expected dual, got {:?}", v),
      }
   }
   fn arbitrary(rng: &mut Rng, dom: u64) -> Val { Val::T("dual", vec![T::arbitrary(rng, dom)]) }
}

impl<T: ValType> ValType for Option<T> {
   fn to_val(&self) -> Val {
      match self {
         None => Val::T("none", vec![]),
         Some(x) => Val::T("some", vec![x.to_val()]),
      }
   }
   fn from_val(v: &Val) -> Self {
      match v {
         Val::T("none", _) => None,
         Val::T("some", x) => Some(T::from_val(&x[0])),
         v => panic!("expected option, got {:?}", v),
      }
   }
   fn arbitrary(rng: &mut Rng, dom: u64) -> Val {
      if rng.chance(200) { Val::T("none", vec![]) } else { Val::T("some", vec![T::arbitrary(rng, dom)]) }
   }
}

impl<T: ValType> ValType for ConstPropagation<T> {
   fn to_val(&self) -> Val {
      match self {
         ConstPropagation::Bottom => Val::T("bot", vec![]),
         ConstPropagation::Constant(x) => Val::T("const", vec![x.to_val()]),
         ConstPropagation::Top => Val::T("top", vec![]),
      }
   }
   fn from_val(v: &Val) -> Self {
      match v {
         Val::T("bot", _) => ConstPropagation::Bottom,
         Val::T("const", x) => ConstPropagation::Constant(T::from_val(&x[0])),
         Val::T("top", _) => ConstPropagation::Top,
         v => panic!("expected const-propagation value, got {:?}", v),
      }
   }
   fn arbitrary(rng: &mut Rng, dom: u64) -> Val {
      match rng.below(10) {
         0 => Val::T("bot", vec![]),
         1 => Val::T("top", vec![]),
         _ => Val::T("const", vec![T::arbitrary(rng, dom)]),
      }
   }
}

impl<T: ValType + Ord + std::hash::Hash> ValType for Set<T> {
   fn to_val(&self) -> Val { Val::T("set", self.0.iter().map(|x| x.to_val()).collect()) }
   fn from_val(v: &Val) -> Self {
      match v {
         Val::T("set", xs) => Set(xs.iter().map(T::from_val).collect::<BTreeSet<T>>()),
         v => panic!("expected set, got {:?}", v),
      }
   }
   fn arbitrary(rng: &mut Rng, dom: u64) -> Val {
      let n = rng.below(3);
      let mut xs: Vec<Val> = (0..n).map(|_| T::arbitrary(rng, dom)).collect();
      xs.sort();
      xs.dedup();
      Val::T("set", xs)
   }
}

macro_rules! tuple_valtype {
   ($(($($n:tt $t:ident),+))*) => {$(
      impl<$($t: ValType),+> ValType for ($($t,)+) {
         fn to_val(&self) -> Val { Val::T("tup", vec![$(self.$n.to_val()),+]) }
         fn from_val(v: &Val) -> Self {
            match v {
               Val::T("tup", xs) => ($($t::from_val(&xs[$n]),)+),
               v => panic!("expected tuple, got {:?}", v),
            }
         }
         fn arbitrary(rng: &mut Rng, dom: u64) -> Val { Val::T("tup", vec![$($t::arbitrary(rng, dom)),+]) }
      }
   )*};
}
tuple_valtype! { (0 A) (0 A, 1 B) (0 A, 1 B, 2 C) }

/// A relation row type (a tuple of column types).
pub trait RowType: Sized {
   fn to_row(&self) -> Row;
   fn from_row(r: &Row) -> Self;
}

impl RowType for () {
   fn to_row(&self) -> Row { vec![] }
   fn from_row(_r: &Row) -> Self {}
}

macro_rules! tuple_rowtype {
   ($(($($n:tt $t:ident),+))*) => {$(
      impl<$($t: ValType),+> RowType for ($($t,)+) {
         fn to_row(&self) -> Row { vec![$(self.$n.to_val()),+] }
         fn from_row(r: &Row) -> Self { ($($t::from_val(&r[$n]),)+) }
      }
   )*};
}
tuple_rowtype! {
   (0 A) (0 A, 1 B) (0 A, 1 B, 2 C) (0 A, 1 B, 2 C, 3 D) (0 A, 1 B, 2 C, 3 D, 4 E) (0 A, 1 B, 2 C, 3 D, 4 E, 5 F)
}

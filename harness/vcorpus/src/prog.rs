//! Uniform interface over generated Ascent programs, and the `defprog!` macro that instantiates
//! one program text with the serial and the parallel front ends.

use std::time::Duration;

use crate::val::{Rng, Row, Val};

#[derive(Clone, Copy, PartialEq, Eq, Debug, Hash, PartialOrd, Ord)]
pub enum Variant {
   /// `ascent!`
   Ser,
   /// `ascent_par!`
   Par,
   /// `ascent_par!` with `#![inter_rule_parallelism]`
   Irp,
   /// `ascent!` with `#![generate_run_timeout]`
   SerTo,
   /// `ascent_par!` with `#![generate_run_timeout]`
   ParTo,
}

impl Variant {
   pub fn name(self) -> &'static str {
      match self {
         Variant::Ser => "ser",
         Variant::Par => "par",
         Variant::Irp => "irp",
         Variant::SerTo => "ser_to",
         Variant::ParTo => "par_to",
      }
   }
   pub fn parse(s: &str) -> Option<Variant> {
      Some(match s {
         "ser" => Variant::Ser,
         "par" => Variant::Par,
         "irp" => Variant::Irp,
         "ser_to" => Variant::SerTo,
         "par_to" => Variant::ParTo,
         _ => return None,
      })
   }
   pub fn is_parallel(self) -> bool { matches!(self, Variant::Par | Variant::Irp | Variant::ParTo) }
   pub fn has_timeout(self) -> bool { matches!(self, Variant::SerTo | Variant::ParTo) }
}

pub struct RelMeta {
   pub name: &'static str,
   pub lattice: bool,
   /// the harness may put initial facts here
   pub input: bool,
   /// the relation has a readable vector field (false for `FakeVec`-backed BYODS relations)
   pub io: bool,
   pub arity: usize,
   pub col_gen: Vec<fn(&mut Rng, u64) -> Val>,
   /// lattice order on the last column, through the column type's own `PartialOrd`
   pub lat_leq: Option<fn(&Val, &Val) -> bool>,
}

pub trait Instance {
   fn push(&mut self, rel: usize, row: &Row);
   fn run(&mut self);
   /// `None`: the variant was not compiled with `#![generate_run_timeout]`
   fn run_timeout(&mut self, timeout: Duration) -> Option<bool>;
   /// rows of every relation, in storage order (duplicates preserved)
   fn snapshot(&self) -> Vec<Vec<Row>>;
}

/// initial facts per relation index
pub type Input = Vec<(usize, Vec<Row>)>;
pub type GenFn = fn(&ProgramDef, &mut Rng) -> Input;

pub struct ProgramDef {
   pub name: &'static str,
   pub rels: Vec<RelMeta>,
   pub variants: Vec<Variant>,
   /// no negation / aggregation: re-runs after pushes must equal a fresh run (C13)
   pub positive: bool,
   /// evaluation-order dependent by design (copies intermediate lattice values …): never compared
   pub tags: Vec<&'static str>,
   pub make: fn(Variant) -> Box<dyn Instance>,
   pub gens: Vec<(&'static str, GenFn)>,
   /// name of the program whose serial variant is the reference (default: this program)
   pub reference: Option<&'static str>,
   pub source: &'static str,
}

impl ProgramDef {
   pub fn rel_index(&self, name: &str) -> Option<usize> { self.rels.iter().position(|r| r.name == name) }
   pub fn has_tag(&self, t: &str) -> bool { self.tags.iter().any(|x| *x == t) }
   pub fn gen(&self, name: &str) -> Option<GenFn> { self.gens.iter().find(|g| g.0 == name).map(|g| g.1) }
}

#[doc(hidden)]
#[macro_export]
macro_rules! __has_flag {
   ($f:ident;) => { false };
   ($f:ident; $h:ident $(, $t:ident)*) => { stringify!($f) == stringify!($h) || $crate::__has_flag!($f; $($t),*) };
}

#[doc(hidden)]
#[macro_export]
macro_rules! __is_lattice {
   (relation) => { false };
   (lattice) => { true };
}

#[doc(hidden)]
#[macro_export]
macro_rules! __lat_leq {
   (relation; $($ty:ty),*) => { None };
   (lattice; $($ty:ty),*) => { Some($crate::__last_ty_leq!($($ty),*)) };
}

#[doc(hidden)]
#[macro_export]
macro_rules! __last_ty_leq {
   ($last:ty) => {{
      fn leq(a: &$crate::val::Val, b: &$crate::val::Val) -> bool {
         <$last as $crate::val::ValType>::from_val(a) <= <$last as $crate::val::ValType>::from_val(b)
      }
      leq as fn(&$crate::val::Val, &$crate::val::Val) -> bool
   }};
   ($h:ty, $($t:ty),+) => { $crate::__last_ty_leq!($($t),+) };
}

#[doc(hidden)]
#[macro_export]
macro_rules! __push_row {
   (ser relation $s:expr, $rel:ident, $row:expr) => { $s.$rel.push($row) };
   (ser lattice $s:expr, $rel:ident, $row:expr) => { $s.$rel.push($row) };
   (par relation $s:expr, $rel:ident, $row:expr) => {{ $s.$rel.push($row); }};
   (par lattice $s:expr, $rel:ident, $row:expr) => {{ $s.$rel.push(::ascent::internal::verif::sync::RwLock::new($row)); }};
}

#[doc(hidden)]
#[macro_export]
macro_rules! __snap_rows {
   (ser relation $s:expr, $rel:ident) => { $s.$rel.iter().map(|r| $crate::val::RowType::to_row(r)).collect::<Vec<_>>() };
   (ser lattice $s:expr, $rel:ident) => { $s.$rel.iter().map(|r| $crate::val::RowType::to_row(r)).collect::<Vec<_>>() };
   (par relation $s:expr, $rel:ident) => { $s.$rel.iter().map(|r| $crate::val::RowType::to_row(r)).collect::<Vec<_>>() };
   (par lattice $s:expr, $rel:ident) => {
      $s.$rel.iter().map(|r| $crate::val::RowType::to_row(&*r.read().unwrap())).collect::<Vec<_>>()
   };
}

#[doc(hidden)]
#[macro_export]
macro_rules! __run_timeout {
   (no $s:expr, $d:expr) => {{ let _ = $d; None }};
   (yes $s:expr, $d:expr) => { Some($s.run_timeout($d)) };
}

#[doc(hidden)]
#[macro_export]
macro_rules! __variant {
   ($m:ident, $mac:ident, $mode:ident, $to:ident, [$($pattr:tt)*],
    { $( $kind:ident $(#[$attr:meta])* $rel:ident ( $($ty:ty),* ) [ $($flag:ident),* ] ; )* },
    { $($rules:tt)* }) => {
      pub mod $m {
         #![allow(unused_imports, dead_code, unused_variables, non_camel_case_types, clippy::all)]
         use super::*;
         ::vrespan::respan! { $mac
            $($pattr)*
            pub struct P;
            $( $(#[$attr])* $kind $rel($($ty),*); )*
            $($rules)*
         }
         #[repr(usize)]
         enum RelIdx { $($rel),* }
         impl $crate::prog::Instance for P {
            fn push(&mut self, rel: usize, row: &$crate::val::Row) {
               $(
                  if rel == RelIdx::$rel as usize {
                     let r = <($($ty,)*) as $crate::val::RowType>::from_row(row);
                     $crate::__push_row!($mode $kind self, $rel, r);
                     return;
                  }
               )*
               panic!("no relation with index {}", rel);
            }
            fn run(&mut self) { P::run(self) }
            fn run_timeout(&mut self, timeout: ::std::time::Duration) -> Option<bool> {
               $crate::__run_timeout!($to self, timeout)
            }
            fn snapshot(&self) -> Vec<Vec<$crate::val::Row>> {
               vec![ $( $crate::__snap_rows!($mode $kind self, $rel) ),* ]
            }
         }
      }
   };
}

#[doc(hidden)]
#[macro_export]
macro_rules! __timeout_variants {
   (no, $rels:tt, $rules:tt) => {
      pub fn make_to(_v: $crate::prog::Variant) -> Box<dyn $crate::prog::Instance> { unreachable!() }
      pub const HAS_TIMEOUT: bool = false;
   };
   (yes, $rels:tt, $rules:tt) => {
      $crate::__variant!(ser_to, ascent, ser, yes, [#![generate_run_timeout]], $rels, $rules);
      $crate::__variant!(par_to, ascent_par, par, yes, [#![generate_run_timeout]], $rels, $rules);
      pub fn make_to(v: $crate::prog::Variant) -> Box<dyn $crate::prog::Instance> {
         match v {
            $crate::prog::Variant::SerTo => Box::new(ser_to::P::default()),
            $crate::prog::Variant::ParTo => Box::new(par_to::P::default()),
            _ => unreachable!(),
         }
      }
      pub const HAS_TIMEOUT: bool = true;
   };
}

/// Defines module `$name` with `ser`, `par`, `irp` (and optionally `ser_to`, `par_to`)
/// instantiations of one program text, plus `$name::def() -> ProgramDef`.
///
/// ```ignore
/// defprog! {
///    name: tc;
///    timeouts: yes;
///    positive: true;
///    tags: ["c02", "c05"];
///    rels: { relation edge(u32, u32) [input]; relation path(u32, u32) []; }
///    gens: [("random", gens::random)];
///    rules: { path(x, y) <-- edge(x, y); path(x, z) <-- edge(x, y), path(y, z); }
/// }
/// ```
#[macro_export]
macro_rules! defprog {
   (
      name: $name:ident;
      timeouts: $to:ident;
      positive: $positive:expr;
      tags: [$($tag:expr),* $(,)?];
      rels: $rels:tt
      gens: [$($gen:expr),* $(,)?];
      rules: $rules:tt
   ) => {
      $crate::defprog! { @inner $name; $to; $positive; [$($tag),*]; $rels; [$($gen),*]; $rules; None }
   };
   (
      name: $name:ident;
      timeouts: $to:ident;
      positive: $positive:expr;
      tags: [$($tag:expr),* $(,)?];
      reference: $reference:expr;
      rels: $rels:tt
      gens: [$($gen:expr),* $(,)?];
      rules: $rules:tt
   ) => {
      $crate::defprog! { @inner $name; $to; $positive; [$($tag),*]; $rels; [$($gen),*]; $rules; Some($reference) }
   };
   (@inner $name:ident; $to:ident; $positive:expr; [$($tag:expr),*];
      { $( $kind:ident $(#[$attr:meta])* $rel:ident ( $($ty:ty),* ) [ $($flag:ident),* ] ; )* };
      [$($gen:expr),*]; $rules:tt; $reference:expr) => {
      pub mod $name {
         #![allow(unused_imports, dead_code)]
         use super::*;
         $crate::__variant!(ser, ascent, ser, no, [],
            { $( $kind $(#[$attr])* $rel ( $($ty),* ) [ $($flag),* ] ; )* }, $rules);
         $crate::__variant!(par, ascent_par, par, no, [],
            { $( $kind $(#[$attr])* $rel ( $($ty),* ) [ $($flag),* ] ; )* }, $rules);
         $crate::__variant!(irp, ascent_par, par, no, [#![inter_rule_parallelism]],
            { $( $kind $(#[$attr])* $rel ( $($ty),* ) [ $($flag),* ] ; )* }, $rules);
         $crate::__timeout_variants!($to,
            { $( $kind $(#[$attr])* $rel ( $($ty),* ) [ $($flag),* ] ; )* }, $rules);

         pub fn make(v: $crate::prog::Variant) -> Box<dyn $crate::prog::Instance> {
            match v {
               $crate::prog::Variant::Ser => Box::new(ser::P::default()),
               $crate::prog::Variant::Par => Box::new(par::P::default()),
               $crate::prog::Variant::Irp => Box::new(irp::P::default()),
               other => make_to(other),
            }
         }

         pub fn def() -> $crate::prog::ProgramDef {
            let mut variants = vec![$crate::prog::Variant::Ser, $crate::prog::Variant::Par, $crate::prog::Variant::Irp];
            if HAS_TIMEOUT {
               variants.push($crate::prog::Variant::SerTo);
               variants.push($crate::prog::Variant::ParTo);
            }
            $crate::prog::ProgramDef {
               name: stringify!($name),
               rels: vec![ $(
                  $crate::prog::RelMeta {
                     name: stringify!($rel),
                     lattice: $crate::__is_lattice!($kind),
                     input: $crate::__has_flag!(input; $($flag),*),
                     io: !$crate::__has_flag!(noio; $($flag),*),
                     arity: { let a: &[&str] = &[$(stringify!($ty)),*]; a.len() },
                     col_gen: vec![ $( <$ty as $crate::val::ValType>::arbitrary as fn(&mut $crate::val::Rng, u64) -> $crate::val::Val ),* ],
                     lat_leq: $crate::__lat_leq!($kind; $($ty),*),
                  }
               ),* ],
               variants,
               positive: $positive,
               tags: vec![$($tag),*],
               make,
               gens: vec![$($gen),*],
               reference: $reference,
               source: stringify!($rules),
            }
         }
      }
   };
}

/// Like `defprog!` for programs that only the serial front end accepts (BYODS providers without a
/// parallel implementation): `ser` and `ser_to` instantiations only.
#[macro_export]
macro_rules! defprog_ser {
   (
      name: $name:ident;
      positive: $positive:expr;
      tags: [$($tag:expr),* $(,)?];
      reference: $reference:expr;
      rels: { $( $kind:ident $(#[$attr:meta])* $rel:ident ( $($ty:ty),* ) [ $($flag:ident),* ] ; )* }
      gens: [$($gen:expr),* $(,)?];
      rules: $rules:tt
   ) => {
      pub mod $name {
         #![allow(unused_imports, dead_code)]
         use super::*;
         $crate::__variant!(ser, ascent, ser, no, [],
            { $( $kind $(#[$attr])* $rel ( $($ty),* ) [ $($flag),* ] ; )* }, $rules);
         $crate::__variant!(ser_to, ascent, ser, yes, [#![generate_run_timeout]],
            { $( $kind $(#[$attr])* $rel ( $($ty),* ) [ $($flag),* ] ; )* }, $rules);

         pub fn make(v: $crate::prog::Variant) -> Box<dyn $crate::prog::Instance> {
            match v {
               $crate::prog::Variant::Ser => Box::new(ser::P::default()),
               $crate::prog::Variant::SerTo => Box::new(ser_to::P::default()),
               other => panic!("program {} has no {:?} instantiation", stringify!($name), other),
            }
         }

         pub fn def() -> $crate::prog::ProgramDef {
            $crate::prog::ProgramDef {
               name: stringify!($name),
               rels: vec![ $(
                  $crate::prog::RelMeta {
                     name: stringify!($rel),
                     lattice: $crate::__is_lattice!($kind),
                     input: $crate::__has_flag!(input; $($flag),*),
                     io: !$crate::__has_flag!(noio; $($flag),*),
                     arity: { let a: &[&str] = &[$(stringify!($ty)),*]; a.len() },
                     col_gen: vec![ $( <$ty as $crate::val::ValType>::arbitrary as fn(&mut $crate::val::Rng, u64) -> $crate::val::Val ),* ],
                     lat_leq: $crate::__lat_leq!($kind; $($ty),*),
                  }
               ),* ],
               variants: vec![$crate::prog::Variant::Ser, $crate::prog::Variant::SerTo],
               positive: $positive,
               tags: vec![$($tag),*],
               make,
               gens: vec![$($gen),*],
               reference: $reference,
               source: stringify!($rules),
            }
         }
      }
   };
}

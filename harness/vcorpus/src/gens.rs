//! Seeded input generators. Domains are small (3–8 constants), relation sizes deliberately
//! skewed (empty / singleton / one large), occasional duplicate input rows, order shuffled.

use crate::prog::{Input, ProgramDef};
use crate::val::{Rng, Row, Val};

fn skewed_size(rng: &mut Rng) -> usize {
   match rng.below(10) {
      0 => 0,
      1 => 1,
      2..=5 => rng.range(2, 6) as usize,
      6..=8 => rng.range(6, 14) as usize,
      _ => rng.range(14, 25) as usize,
   }
}

fn finish(rng: &mut Rng, lattice: bool, mut rows: Vec<Row>) -> Vec<Row> {
   if lattice {
      // one row per key (a second row for a key in the input makes even a fresh run ill-defined)
      let mut seen = std::collections::BTreeSet::new();
      rows.retain(|r| seen.insert(r[..r.len() - 1].to_vec()));
   } else if !rows.is_empty() && rng.chance(150) {
      // duplicate input rows put there by the caller
      let k = rng.range(1, 2);
      for _ in 0..k {
         let r = rng.pick(&rows).clone();
         rows.push(r);
      }
   }
   rng.shuffle(&mut rows);
   rows
}

/// every input relation gets random rows over one small domain
pub fn random(p: &ProgramDef, rng: &mut Rng) -> Input {
   let dom = rng.range(3, 8);
   let mut res = vec![];
   for (i, rel) in p.rels.iter().enumerate() {
      if !rel.input {
         continue;
      }
      let n = skewed_size(rng);
      let rows: Vec<Row> = (0..n).map(|_| rel.col_gen.iter().map(|g| g(rng, dom)).collect()).collect();
      res.push((i, finish(rng, rel.lattice, rows)));
   }
   res
}

/// like `random` but small (for long histories / many crash points)
pub fn small(p: &ProgramDef, rng: &mut Rng) -> Input {
   let dom = rng.range(3, 5);
   let mut res = vec![];
   for (i, rel) in p.rels.iter().enumerate() {
      if !rel.input {
         continue;
      }
      let n = rng.below(7) as usize;
      let rows: Vec<Row> = (0..n).map(|_| rel.col_gen.iter().map(|g| g(rng, dom)).collect()).collect();
      res.push((i, finish(rng, rel.lattice, rows)));
   }
   res
}

fn edge_rel(p: &ProgramDef) -> usize { p.rel_index("edge").expect("graph generator needs a relation named edge") }

fn with_other_inputs(p: &ProgramDef, rng: &mut Rng, edge_idx: usize, edges: Vec<Row>) -> Input {
   let mut res = small(p, rng);
   res.retain(|(i, _)| *i != edge_idx);
   res.push((edge_idx, edges));
   res.sort_by_key(|(i, _)| *i);
   res
}

fn edge_row(p: &ProgramDef, e: usize, a: u64, b: u64, rng: &mut Rng) -> Row {
   let rel = &p.rels[e];
   let mut r = vec![Val::I(a as i64), Val::I(b as i64)];
   for g in rel.col_gen.iter().skip(2) {
      // extra columns (weights): small positive numbers
      let v = g(rng, 5);
      r.push(match v {
         Val::I(i) => Val::I(i + 1),
         other => other,
      });
   }
   r
}

/// layered diamond: source -> W nodes -> W nodes -> ... -> sink; the same (x, z) tuple gets many
/// derivations in the same iteration, which is what makes insertion races reachable
pub fn diamond(p: &ProgramDef, rng: &mut Rng) -> Input {
   let e = edge_rel(p);
   let layers = rng.range(1, 3);
   let width = rng.range(2, 4);
   let mut rows = vec![];
   let node = |l: u64, w: u64| 1 + l * width + w;
   for w in 0..width {
      rows.push(edge_row(p, e, 0, node(0, w), rng));
   }
   for l in 0..layers.saturating_sub(1) {
      for a in 0..width {
         for b in 0..width {
            if rng.chance(850) {
               rows.push(edge_row(p, e, node(l, a), node(l + 1, b), rng));
            }
         }
      }
   }
   let sink = 1 + layers * width;
   for w in 0..width {
      rows.push(edge_row(p, e, node(layers - 1, w), sink, rng));
   }
   if rng.chance(300) {
      rows.push(edge_row(p, e, sink, 0, rng)); // close a cycle
   }
   let lat = p.rels[e].lattice;
   let rows = finish(rng, lat, rows);
   with_other_inputs(p, rng, e, rows)
}

/// chain 0 -> 1 -> ... -> n (long recursion, many iterations), optionally closed into a cycle
pub fn chain(p: &ProgramDef, rng: &mut Rng) -> Input {
   let e = edge_rel(p);
   let n = rng.range(2, 9);
   let mut rows: Vec<Row> = (0..n).map(|i| edge_row(p, e, i, i + 1, rng)).collect();
   if rng.chance(400) {
      rows.push(edge_row(p, e, n, 0, rng));
   }
   let lat = p.rels[e].lattice;
   let rows = finish(rng, lat, rows);
   with_other_inputs(p, rng, e, rows)
}

/// dense random graph on few nodes (many duplicates of derived tuples)
pub fn dense(p: &ProgramDef, rng: &mut Rng) -> Input {
   let e = edge_rel(p);
   let n = rng.range(3, 6);
   let mut rows = vec![];
   for a in 0..n {
      for b in 0..n {
         if rng.chance(450) {
            rows.push(edge_row(p, e, a, b, rng));
         }
      }
   }
   let lat = p.rels[e].lattice;
   let rows = finish(rng, lat, rows);
   with_other_inputs(p, rng, e, rows)
}

/// eqrel workloads: most elements are introduced early (self pairs), a chain-shaped `f` makes
/// congruence merges cascade one iteration at a time, so that late deltas *only merge* classes
/// that are already known (no new element) -- the case the old/combined bookkeeping must get right
pub fn eq_merge(p: &ProgramDef, rng: &mut Rng) -> Input {
   let dom = rng.range(6, 12);
   let mut res = small(p, rng);
   let mut set = |name: &str, rows: Vec<Row>, res: &mut Input| {
      if let Some(i) = p.rel_index(name) {
         res.retain(|(j, _)| *j != i);
         res.push((i, rows));
      }
   };
   let mut pairs: Vec<Row> = vec![];
   for x in 0..dom {
      if rng.chance(700) {
         pairs.push(vec![Val::I(x as i64), Val::I(x as i64)]);
      }
   }
   for _ in 0..rng.range(1, 4) {
      pairs.push(vec![Val::I(rng.below(dom) as i64), Val::I(rng.below(dom) as i64)]);
   }
   rng.shuffle(&mut pairs);
   set("pair", pairs, &mut res);
   let mut f: Vec<Row> = vec![];
   let stride = rng.range(1, 2);
   for x in 0..dom {
      if rng.chance(850) {
         f.push(vec![Val::I(x as i64), Val::I(((x + stride) % (dom + 1)) as i64)]);
      }
   }
   for _ in 0..rng.below(3) {
      f.push(vec![Val::I(rng.below(dom) as i64), Val::I(rng.below(dom) as i64)]);
   }
   rng.shuffle(&mut f);
   set("f", f.clone(), &mut res);
   set("link", f, &mut res);
   let nodes: Vec<Row> = (0..dom).filter(|_| rng.chance(600)).map(|x| vec![Val::I(x as i64)]).collect();
   set("node", nodes.clone(), &mut res);
   set("start", nodes.into_iter().take(2).collect(), &mut res);
   res.sort_by_key(|(i, _)| *i);
   res
}

/// a transitively closed edge relation: recursive rules over it re-derive only known tuples, so the
/// last productive iteration of a stratum changes nothing but its secondary (write-only) heads
pub fn closed(p: &ProgramDef, rng: &mut Rng) -> Input {
   let e = edge_rel(p);
   let n = rng.range(3, 6) as usize;
   let mut m = vec![vec![false; n]; n];
   for _ in 0..rng.range(2, 6) {
      let a = rng.below(n as u64) as usize;
      let b = rng.below(n as u64) as usize;
      if a != b || rng.chance(200) {
         m[a][b] = true;
      }
   }
   for k in 0..n {
      for i in 0..n {
         for j in 0..n {
            if m[i][k] && m[k][j] {
               m[i][j] = true;
            }
         }
      }
   }
   let mut rows = vec![];
   for i in 0..n {
      for j in 0..n {
         if m[i][j] {
            rows.push(edge_row(p, e, i as u64, j as u64, rng));
         }
      }
   }
   let lat = p.rels[e].lattice;
   let rows = finish(rng, lat, rows);
   with_other_inputs(p, rng, e, rows)
}

/// one large input relation (hundreds of rows, not a multiple of any small pool size): block-wise
/// or chunked processing of relation vectors only shows its seams at such sizes
pub fn big(p: &ProgramDef, rng: &mut Rng) -> Input {
   let mut res = small(p, rng);
   let target = p.rels.iter().position(|r| r.input && r.name == "bulk").expect("generator big needs an input relation named bulk");
   let n = *rng.pick(&[257u64, 263, 301, 389, 515, 641]) + rng.below(3);
   let rows: Vec<Row> = (0..n).map(|i| vec![Val::I(i as i64), Val::I(((i * 7 + 3) % 11) as i64)]).collect();
   let mut rows = rows;
   rng.shuffle(&mut rows);
   res.retain(|(i, _)| *i != target);
   res.push((target, rows));
   res.sort_by_key(|(i, _)| *i);
   res
}

/// ternary eqrel workloads: a few keys, most elements introduced early under every key, a
/// chain-shaped `f` (congruence merges one step per iteration, and keys handing facts to the next
/// key), `big` dense enough that a simple join against it iterates the eqrel side
pub fn eq_tern(p: &ProgramDef, rng: &mut Rng) -> Input {
   let dom = rng.range(4, 8);
   let nkeys = rng.range(1, 3);
   let mut res = small(p, rng);
   let mut set = |name: &str, rows: Vec<Row>, res: &mut Input| {
      if let Some(i) = p.rel_index(name) {
         res.retain(|(j, _)| *j != i);
         res.push((i, rows));
      }
   };
   let mut kpairs: Vec<Row> = vec![];
   for k in 0..nkeys {
      for x in 0..dom {
         if rng.chance(400) {
            kpairs.push(vec![Val::I(k as i64), Val::I(x as i64), Val::I(x as i64)]);
         }
      }
      for _ in 0..rng.range(1, 3) {
         kpairs.push(vec![Val::I(k as i64), Val::I(rng.below(dom) as i64), Val::I(rng.below(dom) as i64)]);
      }
   }
   rng.shuffle(&mut kpairs);
   set("kpair", kpairs, &mut res);
   let mut f: Vec<Row> = vec![];
   let stride = rng.range(1, 2);
   for x in 0..dom {
      if rng.chance(800) {
         f.push(vec![Val::I(x as i64), Val::I(((x + stride) % (dom + 1)) as i64)]);
      }
   }
   for _ in 0..rng.below(3) {
      f.push(vec![Val::I(rng.below(dom) as i64), Val::I(rng.below(dom) as i64)]);
   }
   rng.shuffle(&mut f);
   set("f", f, &mut res);
   let nodes: Vec<Row> = (0..dom).filter(|_| rng.chance(600)).map(|x| vec![Val::I(x as i64)]).collect();
   set("node", nodes, &mut res);
   let keys: Vec<Row> = (0..nkeys + 1).filter(|_| rng.chance(800)).map(|k| vec![Val::I(k as i64)]).collect();
   set("key", keys, &mut res);
   let mut big: Vec<Row> = vec![];
   let density = *rng.pick(&[150u64, 500, 900]);
   for x in 0..dom {
      for y in 0..dom {
         if rng.chance(density) {
            big.push(vec![Val::I(x as i64), Val::I(y as i64)]);
         }
      }
   }
   set("big", big, &mut res);
   let cand: Vec<Row> = (0..rng.range(2, 8))
      .map(|_| vec![Val::I(rng.below(nkeys) as i64), Val::I(rng.below(dom) as i64), Val::I(rng.below(dom) as i64)])
      .collect();
   set("cand", cand, &mut res);
   res.sort_by_key(|(i, _)| *i);
   res
}

/// one or two keys with 1100-2300 values each (`src(k, v)`), probes on those keys: sizes beyond the
/// capacity steps (1024, 2048) of a per-key value vector
pub fn hot_key(p: &ProgramDef, rng: &mut Rng) -> Input {
   let mut res = small(p, rng);
   let mut set = |name: &str, rows: Vec<Row>, res: &mut Input| {
      if let Some(i) = p.rel_index(name) {
         res.retain(|(j, _)| *j != i);
         res.push((i, rows));
      }
   };
   let nkeys = rng.range(1, 2);
   let mut src: Vec<Row> = vec![];
   for k in 0..nkeys {
      let n = rng.range(1100, 2300);
      for v in 0..n {
         src.push(vec![Val::I(k as i64), Val::I(10 + v as i64)]);
      }
   }
   rng.shuffle(&mut src);
   set("src", src, &mut res);
   let mut probe: Vec<Row> = (0..nkeys).map(|k| vec![Val::I(k as i64)]).collect();
   probe.push(vec![Val::I(10 + rng.below(50) as i64)]);
   set("probe", probe, &mut res);
   res.sort_by_key(|(i, _)| *i);
   res
}

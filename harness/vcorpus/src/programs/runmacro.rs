//! `ascent_run!` / `ascent_run_par!`: one-shot evaluation with access to local variables, relation
//! initialisers (`relation r(..) = expr;`) and the index update that follows them.
use std::time::Duration;

use ascent::{ascent_run, ascent_run_par};

use crate::gens;
use crate::prog::{Instance, ProgramDef, RelMeta, Variant};
use crate::val::{Rng, Row, RowType, Val, ValType};

struct RunTc {
   variant: Variant,
   r_init: Vec<(u32, u32)>,
   extra: Vec<(u32, u32)>,
   seedv: Vec<(u32,)>,
   out: Vec<Vec<Row>>,
}

macro_rules! run_body {
   ($mac:ident, [$($attr:tt)*], $r_init:expr, $extra:expr, $seedv:expr) => {{
      let r_init: &Vec<(u32, u32)> = $r_init;
      let extra: &Vec<(u32, u32)> = $extra;
      let seedv: &Vec<(u32,)> = $seedv;
      $mac! {
         $($attr)*
         relation r(u32, u32) = r_init.iter().cloned().collect();
         relation marked(u32) = seedv.iter().cloned().collect();
         relation tc(u32, u32);
         relation from_marked(u32, u32);
         lattice best(u32, u32);
         tc(x, y) <-- r(x, y);
         tc(x, z) <-- r(x, y), tc(y, z);
         tc(*a, *b) <-- for (a, b) in extra.iter();
         r(*b, *a) <-- for (a, b) in extra.iter(), if a < b;
         from_marked(x, y) <-- marked(x), tc(x, y);
         marked(y) <-- from_marked(_, y), if *y < 3;
         best(x, *y) <-- tc(x, y);
      }
   }};
}

impl Instance for RunTc {
   fn push(&mut self, rel: usize, row: &Row) {
      match rel {
         0 => self.r_init.push(RowType::from_row(row)),
         1 => self.extra.push(RowType::from_row(row)),
         2 => self.seedv.push(RowType::from_row(row)),
         _ => panic!("run_tc: relation {} is not an input", rel),
      }
   }
   fn run(&mut self) {
      let inputs = vec![
         self.r_init.iter().map(|r| r.to_row()).collect::<Vec<Row>>(),
         self.extra.iter().map(|r| r.to_row()).collect(),
         self.seedv.iter().map(|r| r.to_row()).collect(),
      ];
      let mut out = inputs;
      match self.variant {
         Variant::Ser => {
            let res = run_body!(ascent_run, [], &self.r_init, &self.extra, &self.seedv);
            out.push(res.r.iter().map(|r| r.to_row()).collect());
            out.push(res.marked.iter().map(|r| r.to_row()).collect());
            out.push(res.tc.iter().map(|r| r.to_row()).collect());
            out.push(res.from_marked.iter().map(|r| r.to_row()).collect());
            out.push(res.best.iter().map(|r| r.to_row()).collect());
         },
         Variant::Par => {
            let res = run_body!(ascent_run_par, [], &self.r_init, &self.extra, &self.seedv);
            out.push(res.r.iter().map(|r| r.to_row()).collect());
            out.push(res.marked.iter().map(|r| r.to_row()).collect());
            out.push(res.tc.iter().map(|r| r.to_row()).collect());
            out.push(res.from_marked.iter().map(|r| r.to_row()).collect());
            out.push(res.best.iter().map(|r| r.read().unwrap().to_row()).collect());
         },
         Variant::Irp => {
            let res = run_body!(ascent_run_par, [#![inter_rule_parallelism]], &self.r_init, &self.extra, &self.seedv);
            out.push(res.r.iter().map(|r| r.to_row()).collect());
            out.push(res.marked.iter().map(|r| r.to_row()).collect());
            out.push(res.tc.iter().map(|r| r.to_row()).collect());
            out.push(res.from_marked.iter().map(|r| r.to_row()).collect());
            out.push(res.best.iter().map(|r| r.read().unwrap().to_row()).collect());
         },
         other => panic!("run_tc has no {:?} instantiation", other),
      }
      self.out = out;
   }
   fn run_timeout(&mut self, _timeout: Duration) -> Option<bool> { None }
   fn snapshot(&self) -> Vec<Vec<Row>> { self.out.clone() }
}

fn u32_gen(rng: &mut Rng, dom: u64) -> Val { <u32 as ValType>::arbitrary(rng, dom) }

fn rel(name: &'static str, arity: usize, input: bool, lattice: bool) -> RelMeta {
   fn leq(a: &Val, b: &Val) -> bool { a.as_i64() <= b.as_i64() }
   RelMeta {
      name,
      lattice,
      input,
      io: true,
      arity,
      col_gen: (0..arity).map(|_| u32_gen as fn(&mut Rng, u64) -> Val).collect(),
      lat_leq: if lattice { Some(leq) } else { None },
   }
}

fn make(v: Variant) -> Box<dyn Instance> {
   Box::new(RunTc { variant: v, r_init: vec![], extra: vec![], seedv: vec![], out: vec![vec![]; 8] })
}

pub fn all() -> Vec<ProgramDef> {
   vec![ProgramDef {
      name: "run_tc",
      // the three inputs are echoed (they are local variables, not relation fields); `r` and
      // `marked` are the initialised relations
      rels: vec![
         rel("r_init", 2, true, false),
         rel("extra", 2, true, false),
         rel("seedv", 1, true, false),
         rel("r", 2, false, false),
         rel("marked", 1, false, false),
         rel("tc", 2, false, false),
         rel("from_marked", 2, false, false),
         rel("best", 2, false, true),
      ],
      variants: vec![Variant::Ser, Variant::Par, Variant::Irp],
      positive: true,
      tags: vec!["c02", "c20", "run-macro"],
      make,
      gens: vec![("random", gens::random), ("small", gens::small)],
      reference: None,
      source: "ascent_run! / ascent_run_par! { relation r(u32,u32) = r_init...; relation marked(u32) = seedv...; tc(x,y) <-- r(x,y); tc(x,z) <-- r(x,y), tc(y,z); tc(*a,*b) <-- for (a,b) in extra.iter(); r(*b,*a) <-- for (a,b) in extra.iter(), if a < b; from_marked(x,y) <-- marked(x), tc(x,y); marked(y) <-- from_marked(_,y), if *y < 3; best(x,*y) <-- tc(x,y); }",
   }]
}

//! The program corpus. Every program text is instantiated by `ascent!` and by `ascent_par!`
//! (plain and with `#![inter_rule_parallelism]`), some also with `#![generate_run_timeout]`.
#![allow(clippy::all)]

use crate::prog::ProgramDef;

pub mod core;
pub mod lattices;
pub mod strat;
pub mod byods;
pub mod features;
pub mod runmacro;
#[cfg(feature = "generated")]
pub mod generated;

pub fn all() -> Vec<ProgramDef> {
   let mut v = vec![];
   v.extend(core::all());
   v.extend(lattices::all());
   v.extend(strat::all());
   v.extend(byods::all());
   v.extend(features::all());
   v.extend(runmacro::all());
   #[cfg(feature = "generated")]
   v.extend(generated::all());
   v
}

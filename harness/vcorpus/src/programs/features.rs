//! Language-feature coverage: disjunctions, pattern arguments, Option / String columns, facts
//! written in the program, expressions as body-clause arguments, if-let, demand-driven recursion,
//! several indices per relation, tuple / bool / Option lattices, negation through a set lattice.
use ascent::lattice::set::Set;
use ascent::Dual;

use crate::gens;
use crate::prog::ProgramDef;
use crate::defprog;

defprog! {
   name: disjunction_patterns;
   timeouts: yes;
   positive: true;
   tags: ["c02", "c05", "c13", "c14", "c20"];
   rels: {
      relation road(u32, u32) [input];
      relation rail(u32, u32) [input];
      relation opt(u32, Option<u32>) [input];
      relation connected(u32, u32) [];
      relation some_val(u32, u32) [];
      relation none_key(u32) [];
      relation hop(u32, u32) [];
   }
   gens: [("random", gens::random), ("small", gens::small)];
   rules: {
      connected(x, y) <-- (road(x, y) | rail(x, y));
      connected(x, z) <-- connected(x, y), (road(y, z) | rail(y, z));
      some_val(*x, *y) <-- opt(x, ?Some(y)), if y != x;
      none_key(x) <-- opt(x, y_opt), if y_opt.is_none();
      hop(x, z) <-- opt(x, ?Some(y)), connected(y, z);
      connected(x, *y) <-- opt(x, y_opt), if let Some(y) = y_opt, none_key(x);
      opt(1, None);
      opt(2, Some(3));
      road(0, 1);
   }
}

defprog! {
   name: exprs_and_indices;
   timeouts: yes;
   positive: true;
   tags: ["c02", "c05", "c13", "c14", "c20"];
   rels: {
      relation t(u32, u32, u32) [input];
      relation u(u32, u32) [input];
      relation r1(u32, u32, u32) [];
      relation r2(u32, u32) [];
      relation r3(u32) [];
      relation r4(u32, u32) [];
      relation r5(u32, u32, u32) [];
   }
   gens: [("random", gens::random), ("small", gens::small)];
   rules: {
      // the same relation read through many different indices
      r1(a, b, c) <-- t(a, b, c), u(a, b);
      r2(a, c) <-- u(a, b), t(_, b, c);
      r2(b, c) <-- u(a, b), t(a, _, c);
      r3(c) <-- t(c, c, x), if *x > 0;
      r3(a) <-- t(a, b, *a + b);
      // expressions as arguments of a later body clause
      r4(x, z) <-- u(x, y), u(x + y, z);
      r4(x, z) <-- r4(x, y), u(*y, z), if x != z;
      r5(x, y, (x + y) % 5) <-- r4(x, y), t(x, _, _);
      t(a, b, c) <-- r5(a, b, c), u(c, a);
   }
}

// demand-driven recursion (do_x / x pairs), bounded arithmetic
defprog! {
   name: demand_fib;
   timeouts: yes;
   positive: true;
   tags: ["c02", "c05", "c13", "c14", "c20"];
   rels: {
      relation query(u32) [input];
      relation do_fib(u32) [];
      relation fib(u32, u64) [];
      relation answer(u32, u64) [];
   }
   gens: [("random", gens::random), ("small", gens::small)];
   rules: {
      do_fib(x) <-- query(x), if *x <= 12;
      do_fib(x - 1), do_fib(x - 2) <-- do_fib(x), if *x >= 2;
      fib(0, 0) <-- do_fib(0);
      fib(1, 1) <-- do_fib(1);
      fib(*x, a + b) <-- do_fib(x), if *x >= 2, fib(x - 1, a), fib(x - 2, b);
      answer(x, f) <-- query(x), fib(x, f);
   }
}

// tuple (lexicographic) lattice, bool lattice, Option lattice, key-less lattice
defprog! {
   name: more_lattices;
   timeouts: yes;
   positive: true;
   tags: ["c02", "c05", "c13", "c14", "c20", "lattice"];
   rels: {
      relation obs(u32, u32, u32) [input];
      lattice best(u32, (u32, u32)) [];
      lattice seen(u32, bool) [];
      lattice maybe(u32, Option<u32>) [];
      lattice lowest(Dual<u32>) [];
      relation flagged(u32) [];
   }
   gens: [("random", gens::random), ("small", gens::small)];
   rules: {
      best(k, (*a, *b)) <-- obs(k, a, b);
      best(b, (*a, *k)) <-- obs(k, a, b), if a > b;
      seen(k, false) <-- obs(k, _, _);
      seen(k, true) <-- obs(k, a, b), if a == b;
      seen(b, true) <-- seen(k, t), obs(k, _, b), if *t;
      maybe(k, None) <-- obs(k, _, _);
      maybe(k, Some(*a)) <-- obs(k, a, b), if a < b;
      lowest(Dual(*a)) <-- obs(_, a, _);
      flagged(k) <-- seen(k, t), if *t;
      seen(k, true) <-- flagged(j), obs(j, k, _);
   }
}

// negation through a set-valued lattice of a lower stratum; String-valued columns
defprog! {
   name: set_negation_strings;
   timeouts: no;
   positive: false;
   tags: ["c02", "c05", "c13", "c20", "lattice", "agg"];
   rels: {
      relation foo(u32, u32) [input];
      relation name(u32, String) [input];
      lattice all_foo(Set<(u32, u32)>) [];
      relation cand(u32, u32) [input];
      relation missing(u32, u32) [];
      relation named(String, String) [];
      relation same_name(u32, u32) [];
   }
   gens: [("random", gens::random), ("small", gens::small)];
   rules: {
      all_foo(Set::singleton((*x, *y))) <-- foo(x, y);
      missing(x, y) <-- cand(x, y), all_foo(s), if !s.contains(&(*x, *y));
      named(a.clone(), b.clone()) <-- foo(x, y), name(x, a), name(y, b);
      same_name(x, y) <-- name(x, n), name(y, n), if x < y;
      foo(x, y) <-- same_name(x, y), cand(y, x);
   }
}

// variables bound by an item *before* a two-clause join (generator, let, earlier clause,
// aggregate) and used by the second clause of that join: the join must not be reordered blindly
defprog! {
   name: prebound_join;
   timeouts: yes;
   positive: false;
   tags: ["c02", "c05", "c13", "c14", "c20"];
   rels: {
      relation foo(u32, u32) [input];
      relation bar(u32, u32) [input];
      relation pick(u32) [input];
      relation r_for(u32, u32) [];
      relation r_let(u32, u32) [];
      relation r_clause(u32, u32) [];
      relation r_rec(u32, u32) [];
      relation top(u32) [];
      relation r_agg(u32, u32) [];
   }
   gens: [("random", gens::random), ("small", gens::small)];
   rules: {
      r_for(x, z) <-- for z in 0..3u32, foo(x, y), bar(y, z);
      r_let(x, z) <-- let z = 2u32, foo(x, y), bar(y, z);
      r_clause(x, w) <-- pick(w), foo(x, y), bar(y, w);
      r_rec(x, z) <-- pick(z), foo(x, y), bar(y, z);
      r_rec(x, z) <-- for z in 1..4u32, r_rec(x, y), bar(y, z), if x != y;
      top(m) <-- agg m = ascent::aggregators::max(v) in pick(v);
      r_agg(x, m) <-- top(m), foo(x, y), bar(y, m);
   }
}

pub fn all() -> Vec<ProgramDef> {
   vec![
      prebound_join::def(),
      disjunction_patterns::def(),
      exprs_and_indices::def(),
      demand_fib::def(),
      more_lattices::def(),
      set_negation_strings::def(),
   ]
}

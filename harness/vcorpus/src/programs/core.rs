//! Positive programs: joins, constants, repeated variables, conditions, generators, multi-head.
use crate::gens;
use crate::prog::ProgramDef;
use crate::defprog;

defprog! {
   name: tc;
   timeouts: yes;
   positive: true;
   tags: ["c02", "c05", "c13", "c14", "c20", "graph"];
   rels: {
      relation edge(u32, u32) [input];
      relation path(u32, u32) [];
   }
   gens: [("random", gens::random), ("diamond", gens::diamond), ("chain", gens::chain), ("dense", gens::dense), ("closed", gens::closed)];
   rules: {
      path(x, y) <-- edge(x, y);
      path(x, z) <-- edge(x, y), path(y, z);
   }
}

defprog! {
   name: tc_nonlinear;
   timeouts: yes;
   positive: true;
   tags: ["c02", "c05", "c13", "c14", "c20", "graph"];
   rels: {
      relation edge(u32, u32) [input];
      relation path(u32, u32) [input];
   }
   gens: [("random", gens::random), ("diamond", gens::diamond), ("chain", gens::chain), ("dense", gens::dense)];
   rules: {
      path(x, y) <-- edge(x, y);
      path(x, z) <-- path(x, y), path(y, z);
   }
}

defprog! {
   name: same_gen;
   timeouts: no;
   positive: true;
   tags: ["c02", "c05", "c13", "c20", "graph"];
   rels: {
      relation edge(u32, u32) [input];
      relation node(u32) [];
      relation sg(u32, u32) [];
   }
   gens: [("random", gens::random), ("diamond", gens::diamond), ("dense", gens::dense)];
   rules: {
      node(x), node(y) <-- edge(x, y);
      sg(x, x) <-- node(x);
      sg(x, y) <-- edge(px, x), sg(px, py), edge(py, y);
   }
}

// several rules and several head clauses writing the same relations; a relation that is both an
// input and derivable; constants and repeated variables in body clauses
defprog! {
   name: multi_writer;
   timeouts: yes;
   positive: true;
   tags: ["c02", "c05", "c13", "c14", "c20", "graph"];
   rels: {
      relation edge(u32, u32) [input];
      relation a(u32, u32) [input];
      relation b(u32, u32) [input];
      relation c(u32) [];
      relation self_loop(u32) [];
   }
   gens: [("random", gens::random), ("diamond", gens::diamond), ("dense", gens::dense)];
   rules: {
      a(x, y), b(y, x) <-- edge(x, y);
      a(x, z) <-- a(x, y), b(z, y);
      b(x, z), c(x) <-- b(x, y), a(z, y), if x != z;
      a(x, y) <-- b(y, x), c(x);
      c(y) <-- a(0, y);
      c(x) <-- b(x, 1);
      self_loop(x) <-- a(x, x);
      self_loop(x) <-- b(x, x);
      a(x, x) <-- self_loop(x), c(x);
   }
}

// first clause without any bound column followed by a cross product (index [] => CRelNoIndex in
// parallel mode), generators, let and if-let conditions, arithmetic in heads bounded by a guard
defprog! {
   name: cross_noindex;
   timeouts: yes;
   positive: true;
   tags: ["c02", "c05", "c13", "c14", "c20"];
   rels: {
      relation p(u32) [input];
      relation q(u32, u32) [input];
      relation r(u32, u32) [];
      relation s(u32) [];
      relation cnt(u32) [];
   }
   gens: [("random", gens::random), ("small", gens::small)];
   rules: {
      r(x, y) <-- p(x), p(y), if x < y;
      r(x, z) <-- q(x, y), p(z), let w = x + y, if w % 2 == 0;
      s(x + 1) <-- s(x), if *x < 6;
      s(x) <-- p(x);
      p(y) <-- r(x, y), q(y, x);
      cnt(n) <-- s(x), for n in 0..(*x).min(3);
      r(a, b) <-- cnt(a), cnt(b), q(_, _);
   }
}

// three-way joins (third clause is evaluated serially inside the parallel first two), wildcards
defprog! {
   name: triangle;
   timeouts: no;
   positive: true;
   tags: ["c02", "c05", "c13", "c20", "graph"];
   rels: {
      relation edge(u32, u32) [input];
      relation tri(u32, u32, u32) [];
      relation in_tri(u32) [];
      relation two_hop(u32, u32) [];
      relation reach3(u32) [];
   }
   gens: [("random", gens::random), ("dense", gens::dense), ("diamond", gens::diamond)];
   rules: {
      tri(x, y, z) <-- edge(x, y), edge(y, z), edge(z, x);
      in_tri(x), in_tri(y), in_tri(z) <-- tri(x, y, z);
      two_hop(x, z) <-- edge(x, y), edge(y, z);
      reach3(w) <-- two_hop(x, z), edge(z, w), in_tri(x);
      two_hop(x, w) <-- two_hop(x, z), reach3(z), edge(z, w), edge(_, x);
   }
}

// one large pre-filled relation with several indices, cheap rules: exercises the initial
// (parallel) indexing of many rows, the per-worker splitting of long scans, negation and a
// key-less scan over a big relation
defprog! {
   name: bulk_rows;
   timeouts: no;
   positive: false;
   tags: ["c02", "c05", "c20"];
   rels: {
      relation bulk(u32, u32) [input];
      relation probe(u32) [input];
      relation by_first(u32, u32) [];
      relation by_second(u32) [];
      relation present(u32) [];
      relation absent(u32) [];
      relation high(u32) [];
   }
   gens: [("big", gens::big)];
   rules: {
      by_first(x, y) <-- probe(x), bulk(x, y);
      by_second(x) <-- probe(y), bulk(x, y), if x % 16 == 0;
      present(x) <-- bulk(x, _), if x % 5 == 0;
      absent(x) <-- probe(x), !bulk(x, _);
      high(x) <-- bulk(x, 10), if *x > 200;
      probe(x + 250) <-- probe(x), if *x < 8;
   }
}


// a recursive rule with three body clauses, two of them recursive and read through a partial index:
// the only shape in which generated code consults `is_empty()` of a combined total+delta view
// ("skip the rule if a body relation is empty") for a relation that is being derived
defprog! {
   name: tc_three_clause;
   timeouts: yes;
   positive: true;
   tags: ["c02", "c05", "c13", "c14", "c20", "graph"];
   rels: {
      relation edge(u32, u32) [input];
      relation path(u32, u32) [input];
      relation meet(u32, u32) [];
   }
   gens: [("random", gens::random), ("diamond", gens::diamond), ("chain", gens::chain), ("dense", gens::dense), ("small", gens::small)];
   rules: {
      path(x, y) <-- edge(x, y);
      path(x, z) <-- path(x, y), path(y, w), edge(w, z);
      meet(x, z) <-- path(x, y), path(z, y), edge(x, _), if x < z;
   }
}


// one key of a secondary index receives more than a thousand values within one iteration (growth
// steps of the value vector at 1024, 2048 happen while other workers insert under the same key)
defprog! {
   name: hot_key_index;
   timeouts: no;
   positive: true;
   tags: ["c02", "c05", "c20"];
   rels: {
      relation src(u32, u32) [input];
      relation probe(u32) [input];
      relation hot(u32, u32) [];
      relation out(u32, u32) [];
      relation back(u32, u32) [];
   }
   gens: [("hot_key", gens::hot_key), ("hot_key", gens::hot_key), ("small", gens::small)];
   rules: {
      hot(k, v) <-- src(k, v);
      out(k, v) <-- probe(k), hot(k, v);
      back(v, k) <-- hot(k, v), probe(v);
   }
}

pub fn all() -> Vec<ProgramDef> {
   vec![tc::def(), tc_nonlinear::def(), same_gen::def(), multi_writer::def(), cross_noindex::def(), triangle::def(), bulk_rows::def(), tc_three_clause::def(), hot_key_index::def()]
}

//! Lattice programs. Lattice columns are only used monotonically: a relation reads a lattice
//! column of a stratum that is still improving only through an upward-closed test.
use ascent::lattice::constant_propagation::ConstPropagation;
use ascent::lattice::set::Set;
use ascent::aggregators::count;
use ascent::Dual;

use crate::gens;
use crate::prog::ProgramDef;
use crate::defprog;

// shortest paths: many keys, each improved many times, by two rules
defprog! {
   name: shortest_path;
   timeouts: yes;
   positive: true;
   tags: ["c02", "c05", "c13", "c14", "c20", "graph", "lattice"];
   rels: {
      relation edge(u32, u32, u32) [input];
      lattice sp(u32, u32, Dual<u32>) [];
   }
   gens: [("random", gens::random), ("diamond", gens::diamond), ("chain", gens::chain), ("dense", gens::dense)];
   rules: {
      sp(x, y, Dual(*w)) <-- edge(x, y, w);
      sp(x, z, Dual(w + l.0)) <-- edge(x, y, w), sp(y, z, ?l), if w + l.0 < 60;
   }
}

// longest bounded path (max lattice on plain integers) + a relation reading the lattice through
// an upward-closed test inside the same stratum
defprog! {
   name: longest_bounded;
   timeouts: yes;
   positive: true;
   tags: ["c02", "c05", "c13", "c14", "c20", "graph", "lattice"];
   rels: {
      relation edge(u32, u32) [input];
      lattice far(u32, u32) [input];
      relation far_enough(u32) [];
      relation seed(u32) [];
   }
   gens: [("random", gens::random), ("diamond", gens::diamond), ("chain", gens::chain), ("dense", gens::dense)];
   rules: {
      far(x, 0) <-- edge(x, _);
      far(y, (d + 1).min(7)) <-- far(x, d), edge(x, y);
      far_enough(x) <-- far(x, d), if *d >= 3;
      seed(y) <-- far_enough(x), edge(x, y);
      far(x, 5) <-- seed(x);
   }
}

// constant propagation: flat lattice, keys created by many workers at once
defprog! {
   name: const_prop;
   timeouts: yes;
   positive: true;
   tags: ["c02", "c05", "c13", "c14", "c20", "graph", "lattice"];
   rels: {
      relation edge(u32, u32) [input];
      relation init(u32, i32) [input];
      lattice val(u32, ConstPropagation<i32>) [];
      relation is_top(u32) [];
   }
   gens: [("random", gens::random), ("diamond", gens::diamond), ("dense", gens::dense)];
   rules: {
      val(x, ConstPropagation::Constant(*c)) <-- init(x, c);
      val(y, v.clone()) <-- edge(x, y), val(x, v);
      is_top(x) <-- val(x, v), if *v == ConstPropagation::Top;
      val(y, ConstPropagation::Top) <-- is_top(x), edge(y, x);
   }
}

// set-valued lattice: reachable-set per node; two lattices in one stratum
defprog! {
   name: reach_sets;
   timeouts: no;
   positive: true;
   tags: ["c02", "c05", "c13", "c20", "graph", "lattice"];
   rels: {
      relation edge(u32, u32) [input];
      lattice reach(u32, Set<u32>) [];
      lattice size(u32, u32) [];
   }
   gens: [("random", gens::random), ("diamond", gens::diamond), ("chain", gens::chain)];
   rules: {
      reach(x, Set::singleton(*y)) <-- edge(x, y);
      reach(x, s.clone()) <-- edge(x, y), reach(y, s);
      size(x, s.len() as u32) <-- reach(x, s);
   }
}

// lattice with a key-less index access (`lat(_, v)`: index [] on a lattice => CRelNoIndex) and
// a lattice without key columns
defprog! {
   name: lat_noindex;
   timeouts: yes;
   positive: true;
   tags: ["c02", "c05", "c13", "c14", "c20", "lattice"];
   rels: {
      relation p(u32, u32) [input];
      lattice best(u32, u32) [];
      lattice overall(u32) [];
      relation big(u32) [];
   }
   gens: [("random", gens::random), ("small", gens::small)];
   rules: {
      best(x, *y) <-- p(x, y);
      best(y, *x) <-- p(x, y), if x < y;
      overall(*v) <-- best(_, v);
      big(x) <-- best(x, v), overall(o), if *v >= 4 && *o >= 4;
      best(x, 6) <-- big(x), p(x, _);
   }
}

// heads that are write-only inside a recursive stratum (multi-head rules) and are derived again by
// a later stratum: their index entries must survive the end of the recursive stratum
defprog! {
   name: write_only_heads;
   timeouts: yes;
   positive: true;
   tags: ["c02", "c05", "c13", "c14", "c20", "graph", "lattice"];
   rels: {
      relation edge(u32, u32) [input];
      relation seed(u32) [input];
      relation path(u32, u32) [];
      relation via(u32, u32) [];
      relation multi(u32) [input];
      lattice first_hop(u32, Dual<u32>) [];
      lattice hops(u32, u32, u32) [];
      relation late(u32, u32) [];
   }
   gens: [("closed", gens::closed), ("random", gens::random), ("diamond", gens::diamond), ("chain", gens::chain), ("dense", gens::dense)];
   rules: {
      path(x, y), hops(x, y, 1) <-- edge(x, y);
      // `via`, `multi`, `first_hop`, `hops` are written but never read in this recursive stratum
      path(x, z), via(x, y), multi(x), first_hop(x, Dual(*y)), hops(x, z, 2) <-- path(x, y), edge(y, z);
      // a later stratum derives the same tuples / the same lattice keys again
      via(x, y) <-- seed(x), edge(x, y);
      multi(x) <-- seed(x), path(x, _);
      first_hop(x, Dual(*x)) <-- seed(x), path(x, _);
      hops(x, y, 0) <-- path(x, y), seed(y);
      late(x, y) <-- via(x, y), multi(x), first_hop(x, _);
   }
}

// a lattice computed in one stratum and read by a later, recursive stratum only through
// non-key indices (first key column bound / second key column bound / no column bound)
defprog! {
   name: lattice_then_walk;
   timeouts: yes;
   positive: true;
   tags: ["c02", "c05", "c13", "c14", "c20", "graph", "lattice"];
   rels: {
      relation edge(u32, u32, u32) [input];
      relation start(u32) [input];
      lattice sp(u32, u32, Dual<u32>) [];
      relation hop(u32) [];
      relation back(u32) [];
      relation any_short(u32, u32) [];
   }
   gens: [("chain", gens::chain), ("random", gens::random), ("diamond", gens::diamond), ("dense", gens::dense)];
   rules: {
      sp(x, y, Dual(*w)) <-- edge(x, y, w);
      sp(x, z, Dual(w + l.0)) <-- edge(x, y, w), sp(y, z, ?l), if w + l.0 < 40;
      hop(x) <-- start(x);
      hop(y) <-- hop(x), sp(x, y, d), if d.0 <= 6;
      back(x) <-- hop(y), sp(x, y, d), if d.0 <= 4;
      hop(x) <-- back(x), start(_);
      any_short(x, y) <-- sp(x, y, d), hop(x), if d.0 <= 2;
   }
}

// a body clause that binds the lattice *value* column as well (`lat(x, v)` with both bound) reads
// the all-columns index of the lattice
defprog! {
   name: lattice_bound_value;
   timeouts: no;
   positive: true;
   tags: ["c13", "lattice"];
   rels: {
      relation init(u32, u32) [input];
      relation q(u32, u32) [input];
      lattice lat(u32, u32) [];
      relation r(u32, u32) [];
   }
   gens: [("random", gens::random), ("small", gens::small)];
   rules: {
      lat(x, *v) <-- init(x, v);
      r(x, v) <-- q(x, v), lat(x, v);
   }
}


// a lattice read by the THIRD body clause of the rule whose head writes the same lattice: in
// parallel mode clauses from the third on run sequentially inside the closure of the first two,
// so the row lock taken for the read and the row lock taken for the head update meet in one
// worker; on a cyclic graph two workers do this crosswise in the same iteration
defprog! {
   name: lattice_tail_clause;
   timeouts: yes;
   positive: true;
   tags: ["c02", "c05", "c13", "c14", "c20", "graph", "lattice"];
   rels: {
      relation edge(u32, u32, u32) [input];
      lattice dist(u32, Dual<u32>) [];
      relation near(u32) [];
   }
   gens: [("dense", gens::dense), ("random", gens::random), ("diamond", gens::diamond), ("closed", gens::closed)];
   rules: {
      dist(x, Dual(20 + (x * 7) % 11)) <-- edge(x, _, _);
      dist(y, Dual(d + w)) <-- edge(_, x, _), edge(x, y, w), dist(x, ?Dual(d));
      near(x) <-- edge(x, _, _), edge(_, x, _), dist(x, ?Dual(d)), if *d < 12;
   }
}


// count() over a full scan of a lattice whose rows improve several times (C02 only: known finding)
defprog! {
   name: lattice_count_scan;
   timeouts: no;
   positive: false;
   tags: ["c02", "lattice", "agg"];
   rels: {
      relation edge(u32, u32, u32) [input];
      lattice best(u32, Dual<u32>) [];
      relation n_best(usize) [];
   }
   gens: [("diamond", gens::diamond), ("random", gens::random), ("dense", gens::dense)];
   rules: {
      best(x, Dual(20 + (x * 7) % 11)) <-- edge(x, _, _);
      best(y, Dual(d.0 + w)) <-- best(x, d), edge(x, y, w);
      n_best(n) <-- agg n = count() in best(_, _);
   }
}

// body clauses that match a constant in the lattice column (C02 only: known finding, same root as
// `lattice_bound_value`)
defprog! {
   name: lattice_value_match;
   timeouts: no;
   positive: true;
   tags: ["c02", "lattice"];
   rels: {
      relation init(u32, u32) [input];
      lattice lat(u32, u32) [];
      relation hit(u32, u32) [];
   }
   gens: [("random", gens::random), ("small", gens::small)];
   rules: {
      lat(x, *v) <-- init(x, v);
      hit(x, 2) <-- lat(x, 2);
      hit(x, 3) <-- lat(x, 3);
      hit(x, 4) <-- lat(x, 4);
   }
}

pub fn all() -> Vec<ProgramDef> {
   vec![shortest_path::def(), longest_bounded::def(), const_prop::def(), reach_sets::def(), lat_noindex::def(), write_only_heads::def(), lattice_then_walk::def(), lattice_bound_value::def(), lattice_tail_clause::def(), lattice_count_scan::def(), lattice_value_match::def()]
}

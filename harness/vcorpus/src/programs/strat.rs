//! Stratified negation and aggregation over relations filled by (parallel) lower strata: a
//! duplicated index entry, invisible in a set comparison of the lower stratum, becomes a
//! different count / sum here.
use ascent::aggregators::{count, max, min, sum};
use ascent::Dual;

use crate::gens;
use crate::prog::ProgramDef;
use crate::defprog;

defprog! {
   name: agg_over_tc;
   timeouts: yes;
   positive: false;
   tags: ["c02", "c05", "c13", "c14", "c20", "graph", "agg"];
   rels: {
      relation edge(u32, u32) [input];
      relation path(u32, u32) [];
      relation node(u32) [];
      relation out_deg(u32, usize) [];
      relation n_paths(usize) [];
      relation furthest(u32, u32) [];
      relation nearest(u32, u32) [];
      relation sum_to(u32, u32) [];
      relation unreachable(u32, u32) [];
      relation sink(u32) [];
      relation hub(u32) [];
   }
   gens: [("random", gens::random), ("diamond", gens::diamond), ("chain", gens::chain), ("dense", gens::dense)];
   rules: {
      path(x, y) <-- edge(x, y);
      path(x, z) <-- edge(x, y), path(y, z);
      node(x), node(y) <-- edge(x, y);
      out_deg(x, n) <-- node(x), agg n = count() in path(x, _);
      n_paths(n) <-- agg n = count() in path(_, _);
      furthest(x, m) <-- node(x), agg m = max(y) in path(x, y);
      nearest(x, m) <-- node(x), agg m = min(y) in path(x, y);
      sum_to(x, s) <-- node(x), agg s = sum(y) in path(x, y);
      unreachable(x, y) <-- node(x), node(y), !path(x, y);
      sink(x) <-- node(x), !edge(x, _);
      hub(x) <-- out_deg(x, n), n_paths(t), if n * 3 >= *t && *t > 0;
   }
}

// aggregation over a key-less (index []) relation and over a lattice of a lower stratum
defprog! {
   name: agg_over_lattice;
   timeouts: no;
   positive: false;
   tags: ["c02", "c05", "c13", "c20", "graph", "agg", "lattice"];
   rels: {
      relation edge(u32, u32, u32) [input];
      lattice dist(u32, u32, Dual<u32>) [];
      relation src(u32) [];
      relation n_reached(u32, usize) [];
      relation ecc(u32, u32) [];
      relation dfin(u32, u32, u32) [];
      relation total(u32) [];
      relation far_pair(u32, u32) [];
   }
   gens: [("random", gens::random), ("diamond", gens::diamond), ("chain", gens::chain)];
   rules: {
      dist(x, y, Dual(*w)) <-- edge(x, y, w);
      dist(x, z, Dual(w + d.0)) <-- edge(x, y, w), dist(y, z, ?d), if w + d.0 < 40;
      src(x) <-- edge(x, _, _);
      n_reached(x, n) <-- src(x), agg n = count() in dfin(x, _, _);
      dfin(x, y, d.0) <-- dist(x, y, d);
      ecc(x, m) <-- src(x), agg m = max(d) in dfin(x, _, d);
      total(s) <-- agg s = sum(w) in edge(_, _, w);
      far_pair(x, y) <-- dfin(x, y, d), ecc(x, m), if d == m;
   }
}

// negation between recursive strata (win/lose game) and a relation filled in stratum i that is
// derived again in stratum i+1
defprog! {
   name: strata_chain;
   timeouts: yes;
   positive: false;
   tags: ["c02", "c05", "c13", "c14", "c20", "graph", "agg"];
   rels: {
      relation edge(u32, u32) [input];
      relation r1(u32, u32) [];
      relation r2(u32, u32) [];
      relation r3(u32, u32) [];
      relation only1(u32, u32) [];
      relation c1(usize) [];
      relation c2(usize) [];
   }
   gens: [("random", gens::random), ("diamond", gens::diamond), ("dense", gens::dense)];
   rules: {
      r1(x, y) <-- edge(x, y);
      r1(x, z) <-- r1(x, y), edge(y, z), if x != z;
      r2(x, y) <-- r1(x, y);
      r2(x, z) <-- r2(x, y), r1(y, z);
      only1(x, y) <-- r2(x, y), !r1(x, y);
      r3(x, y) <-- r2(x, y), !only1(y, x);
      r3(x, y) <-- r1(x, y);
      r3(x, z) <-- r3(x, y), only1(y, z);
      c1(n) <-- agg n = count() in r1(_, _);
      c2(n) <-- agg n = count() in r3(_, _);
   }
}

// a recursive stratum whose relation is negated / aggregated by the strata that follow it
// *immediately* (no positive stratum in between): a stratum must never be observed half-done by a
// later one, also not when a deadline strikes inside it
defprog! {
   name: reach_then_negate;
   timeouts: yes;
   positive: false;
   tags: ["c02", "c05", "c13", "c14", "c20", "graph", "agg"];
   rels: {
      relation edge(u32, u32) [input];
      relation node(u32) [input];
      relation start(u32) [input];
      relation reach(u32) [];
      relation unreached(u32) [];
      relation furthest(u32) [];
      relation frontier(u32, u32) [];
      relation closed(u32) [];
   }
   gens: [("chain", gens::chain), ("random", gens::random), ("diamond", gens::diamond), ("dense", gens::dense)];
   rules: {
      reach(x) <-- start(x);
      reach(y) <-- reach(x), edge(x, y);
      unreached(x) <-- node(x), !reach(x);
      furthest(m) <-- agg m = max(x) in reach(x);
      frontier(x, y) <-- reach(x), edge(x, y), !reach(y);
      closed(x) <-- reach(x), !frontier(x, _);
   }
}

pub fn all() -> Vec<ProgramDef> { vec![agg_over_tc::def(), agg_over_lattice::def(), strata_chain::def(), reach_then_negate::def()] }

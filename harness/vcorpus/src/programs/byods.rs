//! Programs using `#[ds(ascent_byods_rels::eqrel)]` (binary form: it has a concurrent
//! implementation, `ceqrel_ind`) and their explicit-closure twins (reference, serial).
use ascent::Dual;

use crate::gens;
use crate::prog::ProgramDef;
use crate::defprog;
use crate::defprog_ser;

// ---- 1. eqrel filled in a non-recursive stratum, read with every bound/free pattern ----------
defprog! {
   name: eq_access;
   timeouts: no;
   positive: true;
   tags: ["c10"];
   reference: "eq_access_ref";
   rels: {
      relation pair(u32, u32) [input];
      relation node(u32) [input];
      relation cand(u32, u32) [input];
      relation link(u32, u32) [input];
      relation #[ds(ascent_byods_rels::eqrel)] eq(u32, u32) [noio];
      relation r_ff(u32, u32) [];
      relation r_bf(u32, u32) [];
      relation r_fb(u32, u32) [];
      relation r_bb(u32, u32) [];
      relation r_refl(u32) [];
      relation r_const(u32) [];
      relation r_const2(u32) [];
      relation r_join(u32, u32) [];
      relation r_join2(u32, u32) [];
      relation r_two(u32, u32, u32) [];
      relation r_pre(u32, u32) [];
   }
   gens: [("random", gens::random), ("small", gens::small), ("eq_merge", gens::eq_merge)];
   rules: {
      eq(x, y) <-- pair(x, y);
      r_ff(x, y) <-- eq(x, y);
      r_bf(x, y) <-- node(x), eq(x, y);
      r_fb(x, y) <-- node(y), eq(x, y);
      r_bb(x, y) <-- cand(x, y), eq(x, y2), if y == y2;
      r_refl(x) <-- eq(x, x);
      r_const(y) <-- eq(1, y);
      r_const2(x) <-- eq(x, 2);
      r_join(x, z) <-- eq(x, y), link(y, z);
      r_join2(z, y) <-- link(z, x), eq(x, y);
      r_two(x, y, z) <-- eq(x, y), eq(y, z), node(z), if x != z;
      // a variable bound in front of a simple join and used by its second clause only: the join must
      // not be re-ordered at run time (the twin states the same as a filter, so it cannot share a
      // planner mistake)
      r_pre(x, w) <-- for w in [1u32, 2], eq(x, y), link(y, w);
   }
}

defprog! {
   name: eq_access_ref;
   timeouts: no;
   positive: true;
   tags: ["ref"];
   rels: {
      relation pair(u32, u32) [input];
      relation node(u32) [input];
      relation cand(u32, u32) [input];
      relation link(u32, u32) [input];
      relation eq(u32, u32) [];
      relation r_ff(u32, u32) [];
      relation r_bf(u32, u32) [];
      relation r_fb(u32, u32) [];
      relation r_bb(u32, u32) [];
      relation r_refl(u32) [];
      relation r_const(u32) [];
      relation r_const2(u32) [];
      relation r_join(u32, u32) [];
      relation r_join2(u32, u32) [];
      relation r_two(u32, u32, u32) [];
      relation r_pre(u32, u32) [];
   }
   gens: [("random", gens::random)];
   rules: {
      eq(x, x), eq(y, y), eq(y, x) <-- eq(x, y);
      eq(x, z) <-- eq(x, y), eq(y, z);
      eq(x, y) <-- pair(x, y);
      r_ff(x, y) <-- eq(x, y);
      r_bf(x, y) <-- node(x), eq(x, y);
      r_fb(x, y) <-- node(y), eq(x, y);
      r_bb(x, y) <-- cand(x, y), eq(x, y2), if y == y2;
      r_refl(x) <-- eq(x, x);
      r_const(y) <-- eq(1, y);
      r_const2(x) <-- eq(x, 2);
      r_join(x, z) <-- eq(x, y), link(y, z);
      r_join2(z, y) <-- link(z, x), eq(x, y);
      r_two(x, y, z) <-- eq(x, y), eq(y, z), node(z), if x != z;
      r_pre(x, w) <-- eq(x, y), link(y, w), if *w == 1 || *w == 2;
   }
}

// ---- 2. eqrel in head position of a recursive stratum: facts arrive over many iterations,
//         from several rules, classes get merged late; readers inside the same stratum ---------
defprog! {
   name: eq_recursive;
   timeouts: no;
   positive: true;
   tags: ["c10"];
   reference: "eq_recursive_ref";
   rels: {
      relation pair(u32, u32) [input];
      relation f(u32, u32) [input];
      relation start(u32) [input];
      relation color(u32, u32) [input];
      relation #[ds(ascent_byods_rels::eqrel)] eq(u32, u32) [noio];
      relation reach(u32) [];
      relation eq_out(u32, u32) [];
      relation same(u32, u32) [];
   }
   gens: [("random", gens::random), ("small", gens::small), ("eq_merge", gens::eq_merge)];
   rules: {
      eq(x, y) <-- pair(x, y);
      eq(a, b) <-- eq(x, y), f(x, a), f(y, b);
      reach(x) <-- start(x);
      reach(y) <-- reach(x), eq(x, y);
      eq(x, y) <-- reach(x), reach(y), color(x, c), color(y, c);
      same(x, y) <-- f(x, y), eq(y, x2), if x == x2;
      eq(x, z) <-- same(x, y), f(y, z);
      eq_out(x, y) <-- eq(x, y);
   }
}

defprog! {
   name: eq_recursive_ref;
   timeouts: no;
   positive: true;
   tags: ["ref"];
   rels: {
      relation pair(u32, u32) [input];
      relation f(u32, u32) [input];
      relation start(u32) [input];
      relation color(u32, u32) [input];
      relation eq(u32, u32) [];
      relation reach(u32) [];
      relation eq_out(u32, u32) [];
      relation same(u32, u32) [];
   }
   gens: [("random", gens::random)];
   rules: {
      eq(x, x), eq(y, y), eq(y, x) <-- eq(x, y);
      eq(x, z) <-- eq(x, y), eq(y, z);
      eq(x, y) <-- pair(x, y);
      eq(a, b) <-- eq(x, y), f(x, a), f(y, b);
      reach(x) <-- start(x);
      reach(y) <-- reach(x), eq(x, y);
      eq(x, y) <-- reach(x), reach(y), color(x, c), color(y, c);
      same(x, y) <-- f(x, y), eq(y, x2), if x == x2;
      eq(x, z) <-- same(x, y), f(y, z);
      eq_out(x, y) <-- eq(x, y);
   }
}

// ---- 3. two eqrel relations feeding each other and a lattice; eqrel read in a later stratum
//         under negation / aggregation ------------------------------------------------------
defprog! {
   name: eq_mixed;
   timeouts: no;
   positive: false;
   tags: ["c10"];
   reference: "eq_mixed_ref";
   rels: {
      relation pair(u32, u32) [input];
      relation pair2(u32, u32) [input];
      relation node(u32) [input];
      relation #[ds(ascent_byods_rels::eqrel)] eq1(u32, u32) [noio];
      relation #[ds(ascent_byods_rels::eqrel)] eq2(u32, u32) [noio];
      lattice label(u32, Dual<u32>) [];
      relation eq1m(u32, u32) [];
      relation not_eq(u32, u32) [];
      relation class_size(u32, usize) [];
      relation both(u32, u32) [];
   }
   gens: [("random", gens::random), ("small", gens::small), ("eq_merge", gens::eq_merge)];
   rules: {
      eq1(x, y) <-- pair(x, y);
      eq2(x, y) <-- pair2(x, y);
      eq2(x, y) <-- eq1(x, y), node(x);
      eq1(x, y) <-- eq2(x, y), node(y);
      label(x, Dual(*x)) <-- node(x);
      label(y, l.clone()) <-- eq1(x, y), label(x, l);
      both(x, y) <-- eq1(x, y), eq2(x, y2), if y == y2;
      eq1m(x, y) <-- eq1(x, y);
      not_eq(x, y) <-- node(x), node(y), !eq1m(x, y);
      class_size(x, n) <-- node(x), agg n = ascent::aggregators::count() in eq2(x, _);
   }
}

defprog! {
   name: eq_mixed_ref;
   timeouts: no;
   positive: false;
   tags: ["ref"];
   rels: {
      relation pair(u32, u32) [input];
      relation pair2(u32, u32) [input];
      relation node(u32) [input];
      relation eq1(u32, u32) [];
      relation eq2(u32, u32) [];
      lattice label(u32, Dual<u32>) [];
      relation eq1m(u32, u32) [];
      relation not_eq(u32, u32) [];
      relation class_size(u32, usize) [];
      relation both(u32, u32) [];
   }
   gens: [("random", gens::random)];
   rules: {
      eq1(x, x), eq1(y, y), eq1(y, x) <-- eq1(x, y);
      eq1(x, z) <-- eq1(x, y), eq1(y, z);
      eq2(x, x), eq2(y, y), eq2(y, x) <-- eq2(x, y);
      eq2(x, z) <-- eq2(x, y), eq2(y, z);
      eq1(x, y) <-- pair(x, y);
      eq2(x, y) <-- pair2(x, y);
      eq2(x, y) <-- eq1(x, y), node(x);
      eq1(x, y) <-- eq2(x, y), node(y);
      label(x, Dual(*x)) <-- node(x);
      label(y, l.clone()) <-- eq1(x, y), label(x, l);
      both(x, y) <-- eq1(x, y), eq2(x, y2), if y == y2;
      eq1m(x, y) <-- eq1(x, y);
      not_eq(x, y) <-- node(x), node(y), !eq1m(x, y);
      class_size(x, n) <-- node(x), agg n = ascent::aggregators::count() in eq2(x, _);
   }
}

// ---- 4. congruence closure: the classic shape; late iterations merge known classes only -----
defprog! {
   name: eq_congruence;
   timeouts: no;
   positive: true;
   tags: ["c10"];
   reference: "eq_congruence_ref";
   rels: {
      relation pair(u32, u32) [input];
      relation f(u32, u32) [input];
      relation node(u32) [input];
      relation #[ds(ascent_byods_rels::eqrel)] eq(u32, u32) [noio];
      relation eq_out(u32, u32) [];
      relation rep(u32, u32) [];
      relation merged_late(u32, u32) [];
      relation seen(u32, u32) [];
   }
   gens: [("eq_merge", gens::eq_merge), ("random", gens::random)];
   rules: {
      eq(x, y) <-- pair(x, y);
      eq(c, d) <-- eq(a, b), f(a, c), f(b, d);
      eq(c, d) <-- f(a, c), f(b, d), eq(a, b2), node(c), if b == b2;
      // a full scan of the eqrel inside its own recursive stratum (reads the delta with no bound column)
      seen(x, y) <-- eq(x, y);
      eq(c, d) <-- seen(a, b), f(b, c), f(a, d), if c != d;
      merged_late(x, y) <-- node(x), eq(x, y), f(y, _), if x < y;
      eq_out(x, y) <-- eq(x, y);
      rep(x, y) <-- node(x), eq(x, y), if y <= x;
   }
}

defprog! {
   name: eq_congruence_ref;
   timeouts: no;
   positive: true;
   tags: ["ref"];
   rels: {
      relation pair(u32, u32) [input];
      relation f(u32, u32) [input];
      relation node(u32) [input];
      relation eq(u32, u32) [];
      relation eq_out(u32, u32) [];
      relation rep(u32, u32) [];
      relation merged_late(u32, u32) [];
      relation seen(u32, u32) [];
   }
   gens: [("random", gens::random)];
   rules: {
      eq(x, x), eq(y, y), eq(y, x) <-- eq(x, y);
      eq(x, z) <-- eq(x, y), eq(y, z);
      eq(x, y) <-- pair(x, y);
      eq(c, d) <-- eq(a, b), f(a, c), f(b, d);
      eq(c, d) <-- f(a, c), f(b, d), eq(a, b2), node(c), if b == b2;
      seen(x, y) <-- eq(x, y);
      eq(c, d) <-- seen(a, b), f(b, c), f(a, d), if c != d;
      merged_late(x, y) <-- node(x), eq(x, y), f(y, _), if x < y;
      eq_out(x, y) <-- eq(x, y);
      rep(x, y) <-- node(x), eq(x, y), if y <= x;
   }
}

// ---- serial-only BYODS providers (no parallel implementation, hence no schedule): they take
//      part in the history (C13) and deadline (C14) checks. Reference = the same program run fresh
//      / uninterrupted (what C13 and C14 state); whether a provider computes the right closure in
//      the first place is C10/C11/C12 and deliberately not judged here ----------------------------
defprog_ser! {
   name: trrel_bin;
   positive: true;
   tags: ["c13", "c14", "byods-ser"];
   reference: None;
   rels: {
      relation edge(u32, u32) [input];
      relation start(u32) [input];
      relation #[ds(ascent_byods_rels::trrel)] tr(u32, u32) [noio];
      relation out(u32, u32) [];
      relation from_start(u32) [];
      relation into(u32, u32) [];
   }
   gens: [("random", gens::random), ("small", gens::small), ("chain", gens::chain)];
   rules: {
      tr(x, y) <-- edge(x, y);
      out(x, y) <-- tr(x, y);
      from_start(y) <-- start(x), tr(x, y);
      into(x, y) <-- start(y), tr(x, y);
      tr(x, y) <-- from_start(x), start(y), if x != y;
   }
}

defprog_ser! {
   name: trrel_tern;
   positive: true;
   tags: ["c13", "c14", "byods-ser"];
   reference: None;
   rels: {
      relation edge(u32, u32, u32) [input];
      relation pick(u32, u32) [input];
      relation #[ds(ascent_byods_rels::trrel)] tr(u32, u32, u32) [noio];
      relation out(u32, u32, u32) [];
      relation picked(u32, u32, u32) [];
   }
   gens: [("random", gens::random), ("small", gens::small)];
   rules: {
      tr(g, x, y) <-- edge(g, x, y);
      out(g, x, y) <-- tr(g, x, y);
      picked(g, x, y) <-- pick(g, x), tr(g, x, y);
      tr(g, y, x) <-- picked(g, x, y), pick(g, y);
   }
}

defprog_ser! {
   name: trrel_uf_bin;
   positive: true;
   tags: ["c13", "c14", "byods-ser"];
   reference: None;
   rels: {
      relation edge(u32, u32) [input];
      relation start(u32) [input];
      relation #[ds(ascent_byods_rels::trrel_uf)] tr(u32, u32) [noio];
      relation out(u32, u32) [];
      relation from_start(u32) [];
      relation into(u32, u32) [];
   }
   gens: [("random", gens::random), ("small", gens::small), ("chain", gens::chain)];
   rules: {
      tr(x, y) <-- edge(x, y);
      out(x, y) <-- tr(x, y);
      from_start(y) <-- start(x), tr(x, y);
      into(x, y) <-- start(y), tr(x, y);
      tr(x, y) <-- from_start(x), start(y), if x != y;
   }
}

// the serial binary eqrel provider in histories and under deadlines
defprog_ser! {
   name: eq_ser_history;
   positive: true;
   tags: ["c13", "c14", "byods-ser"];
   reference: None;
   rels: {
      relation pair(u32, u32) [input];
      relation f(u32, u32) [input];
      relation node(u32) [input];
      relation #[ds(ascent_byods_rels::eqrel)] eq(u32, u32) [noio];
      relation eq_out(u32, u32) [];
      relation rep(u32, u32) [];
      relation merged_late(u32, u32) [];
      relation seen(u32, u32) [];
   }
   gens: [("eq_merge", gens::eq_merge), ("random", gens::random)];
   rules: {
      eq(x, y) <-- pair(x, y);
      eq(c, d) <-- eq(a, b), f(a, c), f(b, d);
      eq(c, d) <-- f(a, c), f(b, d), eq(a, b2), node(c), if b == b2;
      // a full scan of the eqrel inside its own recursive stratum (reads the delta with no bound column)
      seen(x, y) <-- eq(x, y);
      eq(c, d) <-- seen(a, b), f(b, c), f(a, d), if c != d;
      merged_late(x, y) <-- node(x), eq(x, y), f(y, _), if x < y;
      eq_out(x, y) <-- eq(x, y);
      rep(x, y) <-- node(x), eq(x, y), if y <= x;
   }
}


// the same without the full-scan reader: there the 3-clause rule (the only one behind the
// "skip the rule if a body relation is empty" guard) is the only way to some facts, so a wrong
// emptiness hint of the eqrel views is not masked by another rule deriving the same tuples
defprog_ser! {
   name: eq_ser_guarded;
   positive: true;
   tags: ["c13", "c14", "byods-ser"];
   reference: None;
   rels: {
      relation pair(u32, u32) [input];
      relation f(u32, u32) [input];
      relation node(u32) [input];
      relation #[ds(ascent_byods_rels::eqrel)] eq(u32, u32) [noio];
      relation eq_out(u32, u32) [];
      relation rep(u32, u32) [];
      relation merged_late(u32, u32) [];
   }
   gens: [("eq_merge", gens::eq_merge), ("random", gens::random)];
   rules: {
      eq(x, y) <-- pair(x, y);
      eq(c, d) <-- eq(a, b), f(a, c), f(b, d);
      eq(c, d) <-- f(a, c), f(b, d), eq(a, b2), node(c), if b == b2;
      merged_late(x, y) <-- node(x), eq(x, y), f(y, _), if x < y;
      eq_out(x, y) <-- eq(x, y);
      rep(x, y) <-- node(x), eq(x, y), if y <= x;
   }
}

// ---- 5. the ternary form eq(K, T, T): one equivalence relation per key K. Serial only (the
//         provider has no concurrent implementation), so these run as the serial baseline share of
//         C10 and in the histories / deadline strikes of C13 and C14. Facts for one key arrive over
//         many iterations, keys pause and resume (a key gets nothing for some iterations, then more),
//         facts move between keys, and every index the provider offers is read inside the recursive
//         stratum: [], [0], [1], [0,1], [1,2] (as a 3-clause rule and as a re-orderable simple
//         join), [0,1,2]. (Binding only column 2 does not compile: `ToEqRel2Ind2` does not exist.)
defprog_ser! {
   name: eq_tern;
   positive: true;
   tags: ["c10", "c13", "c14", "byods-ser"];
   reference: Some("eq_tern_ref");
   rels: {
      relation kpair(u32, u32, u32) [input];
      relation f(u32, u32) [input];
      relation node(u32) [input];
      relation key(u32) [input];
      relation big(u32, u32) [input];
      relation cand(u32, u32, u32) [input];
      relation #[ds(ascent_byods_rels::eqrel)] eq(u32, u32, u32) [noio];
      relation eq_out(u32, u32, u32) [];
      relation r_0(u32, u32, u32) [];
      relation r_1(u32, u32) [];
      relation r_01(u32, u32, u32) [];
      relation r_12(u32, u32, u32) [];
      relation r_12j(u32, u32, u32) [];
      relation r_full(u32, u32, u32) [];
      relation late(u32, u32, u32) [];
   }
   gens: [("eq_tern", gens::eq_tern), ("random", gens::random), ("small", gens::small)];
   rules: {
      eq(k, a, b) <-- kpair(k, a, b);
      // congruence inside a key: one merge per iteration along the chain f
      eq(k, c, d) <-- eq(k, a, b), f(a, c), f(b, d);
      // facts move between keys: the target key pauses until the source key has merged something
      eq(k2, a, b) <-- eq(k, a, b), f(k, k2), key(k2);
      r_1(k, y) <-- node(x), eq(k, x, y);
      eq(k, x, y) <-- r_1(k, y), node(x), f(x, y);
      r_0(k, x, y) <-- key(k), eq(k, x, y);
      r_01(k, x, y) <-- key(k), node(x), eq(k, x, y);
      eq(k, y, z) <-- r_01(k, _, y), f(y, z), node(z);
      r_12(k, x, y) <-- node(x), node(y), eq(k, x, y);
      r_12j(k, x, y) <-- big(x, y), eq(k, x, y);
      eq(k, x2, y) <-- r_12j(k, x, y), f(x, x2), if x2 != y;
      r_full(k, a, b) <-- cand(k, a, b), eq(k, a, b);
      eq_out(k, a, b) <-- eq(k, a, b);
      late(k, x, y) <-- key(k), eq(k, x, y), f(y, _), if x < y;
   }
}

defprog_ser! {
   name: eq_tern_ref;
   positive: true;
   tags: ["ref"];
   reference: None;
   rels: {
      relation kpair(u32, u32, u32) [input];
      relation f(u32, u32) [input];
      relation node(u32) [input];
      relation key(u32) [input];
      relation big(u32, u32) [input];
      relation cand(u32, u32, u32) [input];
      relation eq(u32, u32, u32) [];
      relation eq_out(u32, u32, u32) [];
      relation r_0(u32, u32, u32) [];
      relation r_1(u32, u32) [];
      relation r_01(u32, u32, u32) [];
      relation r_12(u32, u32, u32) [];
      relation r_12j(u32, u32, u32) [];
      relation r_full(u32, u32, u32) [];
      relation late(u32, u32, u32) [];
   }
   gens: [("random", gens::random)];
   rules: {
      eq(k, x, x), eq(k, y, y), eq(k, y, x) <-- eq(k, x, y);
      eq(k, x, z) <-- eq(k, x, y), eq(k, y, z);
      eq(k, a, b) <-- kpair(k, a, b);
      eq(k, c, d) <-- eq(k, a, b), f(a, c), f(b, d);
      eq(k2, a, b) <-- eq(k, a, b), f(k, k2), key(k2);
      r_1(k, y) <-- node(x), eq(k, x, y);
      eq(k, x, y) <-- r_1(k, y), node(x), f(x, y);
      r_0(k, x, y) <-- key(k), eq(k, x, y);
      r_01(k, x, y) <-- key(k), node(x), eq(k, x, y);
      eq(k, y, z) <-- r_01(k, _, y), f(y, z), node(z);
      r_12(k, x, y) <-- node(x), node(y), eq(k, x, y);
      r_12j(k, x, y) <-- big(x, y), eq(k, x, y);
      eq(k, x2, y) <-- r_12j(k, x, y), f(x, x2), if x2 != y;
      r_full(k, a, b) <-- cand(k, a, b), eq(k, a, b);
      eq_out(k, a, b) <-- eq(k, a, b);
      late(k, x, y) <-- key(k), eq(k, x, y), f(y, _), if x < y;
   }
}

pub fn all() -> Vec<ProgramDef> {
   vec![
      trrel_bin::def(),
      trrel_tern::def(),
      trrel_uf_bin::def(),
      eq_ser_history::def(),
      eq_ser_guarded::def(),
      eq_tern::def(),
      eq_tern_ref::def(),
      eq_congruence::def(),
      eq_congruence_ref::def(),
      eq_access::def(),
      eq_access_ref::def(),
      eq_recursive::def(),
      eq_recursive_ref::def(),
      eq_mixed::def(),
      eq_mixed_ref::def(),
   ]
}

//! Programs using `#[ds(ascent_byods_rels::eqrel)]` (binary form: has a concurrent implementation)
//! and their explicit-closure twins.
use crate::gens;
use crate::prog::ProgramDef;

pub fn all() -> Vec<ProgramDef> { vec![] }

//! Seeded case generators: one integer (`VERIF_SEED`) and the case index decide everything.

use vcorpus::prog::{ProgramDef, Variant};
use vcorpus::val::{mix, Rng, Row};

use crate::case::{Actor, Case, Knobs, Op, PoolRef};
use crate::exec::registry;
use crate::sched::{GenMode, SchedPlan};

pub const CHUNK: u64 = 250;
pub const MAX_STEPS: u64 = 20_000_000;

fn str_hash(s: &str) -> u64 { s.bytes().fold(0xcbf29ce484222325u64, |h, b| (h ^ b as u64).wrapping_mul(0x100000001b3)) }

pub fn case_seed(seed: u64, check: &str, index: u64) -> u64 { mix(mix(seed, str_hash(check)), index) }

/// process-level configuration of the chunk a case belongs to
pub fn proc_first_pool(seed: u64, check: &str, index: u64) -> usize {
   let chunk = index / CHUNK;
   let mut r = Rng::new(mix(mix(seed, str_hash(check)), 0xC0FFEE ^ chunk));
   *r.pick(&[1usize, 1, 2, 4, 8, 16])
}

pub fn gen_knobs(rng: &mut Rng) -> Knobs {
   // which yield-point kinds are armed in this run (the contended-spin point always is). The
   // "lock held" points multiply the number of steps, so they are armed in about a third of the runs.
   let held = (1u64 << verif_rt::Site::DashHeldShared as u64) | (1u64 << verif_rt::Site::DashHeldExclusive as u64);
   let mut site_mask = if rng.chance(500) { u64::MAX } else { rng.next_u64() };
   if rng.chance(650) {
      site_mask &= !held;
   }
   site_mask |= 1 << verif_rt::Site::DashContended as u64;
   Knobs {
      global_threads: *rng.pick(&[1usize, 2, 2, 3, 4, 4, 8]),
      steal_permille: *rng.pick(&[0u32, 200, 500, 500, 900, 1000]),
      site_mask,
      shards_override: *rng.pick(&[None, None, None, Some(4usize), Some(16), Some(64)]),
      len_noise: rng.chance(150),
      empty_mask: rng.chance(150),
      noise_seed: rng.next_u64(),
   }
}

pub fn gen_sched(rng: &mut Rng) -> SchedPlan {
   let seed = rng.next_u64();
   let mode = match rng.below(10) {
      0 => GenMode::Default,
      1..=5 => GenMode::RandomWalk { p: *rng.pick(&[50u32, 200, 500]) },
      6..=8 => GenMode::Sparse { n: rng.range(1, 4) as u32, horizon: *rng.pick(&[8u32, 32, 128, 512, 2048]) },
      _ => GenMode::Starve { victim: rng.range(1, 4) as u32, p: *rng.pick(&[50u32, 200]) },
   };
   SchedPlan::Gen { seed, mode }
}

pub fn programs_tagged(tag: &str) -> Vec<&'static ProgramDef> {
   // development aid: VSIM_ONLY_TAG restricts the corpus (e.g. to the generated programs)
   let only = std::env::var("VSIM_ONLY_TAG").ok();
   registry().iter().filter(|p| p.has_tag(tag) && only.as_ref().map_or(true, |t| p.has_tag(t))).collect()
}

pub fn gen_input_ops(def: &ProgramDef, rng: &mut Rng) -> (String, Vec<Op>) {
   let (gname, g) = *rng.pick(&def.gens);
   let input = g(def, rng);
   let ops = input
      .into_iter()
      .map(|(ri, rows)| Op::Push { rel: def.rels[ri].name.to_string(), rows })
      .collect();
   (gname.to_string(), ops)
}

pub fn base_case(check: &str, seed: u64, index: u64, rng: &mut Rng) -> Case {
   Case {
      check: check.to_string(),
      seed,
      index,
      label: String::new(),
      proc_first_pool: proc_first_pool(seed, check, index),
      pools: vec![],
      knobs: gen_knobs(rng),
      actors: vec![],
      sched: gen_sched(rng),
      max_steps: MAX_STEPS,
      index_scenario: None,
      violation: None,
   }
}

fn pick_par_variant(rng: &mut Rng) -> Variant { if rng.chance(400) { Variant::Irp } else { Variant::Par } }

/// C02 / C05: one parallel program, one input, one run
fn gen_single_run(check: &str, tag: &str, seed: u64, index: u64, serial_baseline_permille: u64) -> Case {
   let mut rng = Rng::new(case_seed(seed, check, index));
   let mut case = base_case(check, seed, index, &mut rng);
   let progs = programs_tagged(tag);
   let def = *rng.pick(&progs);
   let variant = if rng.chance(serial_baseline_permille) { Variant::Ser } else { pick_par_variant(&mut rng) };
   // providers without a concurrent implementation (ternary eqrel): serial baseline only
   let variant = if def.variants.contains(&variant) { variant } else { Variant::Ser };
   let (gname, mut ops) = gen_input_ops(def, &mut rng);
   ops.insert(0, Op::New { pool: PoolRef::Global });
   ops.push(Op::Run { pool: PoolRef::Global });
   if check == "C05" && rng.chance(250) {
      // "no matter how many ... iterations", "whether it was an input fact or derived earlier": a
      // repeated run must not append a tuple again either, also not one the caller appended to a
      // derived (possibly write-only) relation in between
      if rng.chance(500) {
         for _ in 0..rng.range(1, 2) {
            if let Some(p) = gen_push(def, &mut rng, &ops, false) {
               ops.push(p);
            }
         }
      }
      ops.push(Op::Run { pool: PoolRef::Global });
   }
   case.label = format!("{}/{}/{}", def.name, variant.name(), gname);
   case.actors.push(Actor { program: def.name.to_string(), variant: variant.name().to_string(), ops });
   case
}

fn gen_pools(rng: &mut Rng) -> Vec<usize> {
   let n = rng.range(1, 3) as usize;
   (0..n).map(|_| *rng.pick(&[1usize, 2, 3, 4, 8])).collect()
}

/// a pool reference over `n` custom pools; nested installs only go from a lower to a higher pool
/// index, so no two actors can wait for each other's pools in a cycle (a worker blocked in a
/// cross-pool `install` keeps serving its own pool in real rayon; the model does not, see DESIGN 2.1)
fn gen_pool_ref(rng: &mut Rng, n: usize) -> PoolRef {
   if n == 0 {
      return PoolRef::Global;
   }
   match rng.below(10) {
      0..=2 => PoolRef::Global,
      3..=7 => PoolRef::Pool(rng.below(n as u64) as usize),
      _ =>
         if n >= 2 {
            let i = rng.below(n as u64 - 1) as usize;
            let j = rng.range(i as u64 + 1, n as u64 - 1) as usize;
            PoolRef::Nested(i, j)
         } else {
            PoolRef::Pool(0)
         },
   }
}

fn facts_of(ops: &[Op]) -> crate::oracle::Facts {
   ops.iter().filter_map(|o| if let Op::Push { rel, rows } = o { Some((rel.clone(), rows.clone())) } else { None }).collect()
}

/// facts to push after a run: new input facts, facts for derived relations, already-derived
/// facts, facts that enable a lower stratum, or nothing
fn gen_push(def: &ProgramDef, rng: &mut Rng, so_far: &[Op], inputs_only: bool) -> Option<Op> {
   let candidates: Vec<usize> = def
      .rels
      .iter()
      .enumerate()
      .filter(|(_, r)| r.io && (r.input || !inputs_only))
      .map(|(i, _)| i)
      .collect();
   if candidates.is_empty() {
      return None;
   }
   // provider-backed (BYODS) programs: mostly feed the relation that feeds the provider, so that
   // successive runs merge / extend what the provider stored in earlier runs
   let ri = if def.has_tag("byods-ser") && rng.chance(700) { candidates[0] } else { *rng.pick(&candidates) };
   let rel = &def.rels[ri];
   let known = crate::oracle::reference(def, &facts_of(so_far));
   let existing: Vec<Row> = known.get(rel.name).cloned().unwrap_or_default();
   let dom = rng.range(3, 9);
   let n = match rng.below(6) {
      0 => 0,
      1..=3 => rng.range(1, 3),
      _ => rng.range(3, 8),
   } as usize;
   let mut rows: Vec<Row> = vec![];
   for _ in 0..n {
      if !rel.lattice && !existing.is_empty() && rng.chance(300) {
         // a fact the program already holds (input or derived)
         rows.push(rng.pick(&existing).clone());
         continue;
      }
      let r: Row = rel.col_gen.iter().map(|g| g(rng, dom)).collect();
      if rel.lattice {
         // only fresh keys: a second user-pushed row for an existing key is ill-defined even for a fresh run
         let k = rel.arity - 1;
         if existing.iter().chain(rows.iter()).any(|e| e[..k] == r[..k]) {
            continue;
         }
      }
      rows.push(r);
   }
   Some(Op::Push { rel: rel.name.to_string(), rows })
}

/// C13: histories run; run | run; push; run ... over one program value
fn gen_history(seed: u64, index: u64, thorough: bool) -> Case {
   let check = "C13";
   let mut rng = Rng::new(case_seed(seed, check, index));
   let mut case = base_case(check, seed, index, &mut rng);
   let progs = programs_tagged("c13");
   let def = *rng.pick(&progs);
   let mut variant = if rng.chance(300) { Variant::Ser } else { pick_par_variant(&mut rng) };
   if !def.variants.contains(&variant) {
      variant = Variant::Ser;
   }
   if variant.is_parallel() && rng.chance(350) {
      case.pools = gen_pools(&mut rng);
   }
   let np = case.pools.len();
   let (gname, mut ops) = gen_input_ops(def, &mut rng);
   ops.insert(0, Op::New { pool: gen_pool_ref(&mut rng, np) });
   ops.push(Op::Run { pool: gen_pool_ref(&mut rng, np) });
   let byods = def.has_tag("byods-ser");
   let extra = if thorough { rng.range(1, 5) } else if byods { rng.range(2, 4) } else { rng.range(1, 3) };
   let shape = if byods && rng.chance(600) { 4 } else { rng.below(4) };
   for i in 0..extra {
      let want_push = match shape {
         0 => false,              // run; run; run ...
         1 => i % 2 == 0,         // run; push; run; run; push ...
         4 => true,               // run; push; run; push; run ...
         _ => rng.chance(500),
      };
      if want_push {
         if let Some(p) = gen_push(def, &mut rng, &ops, !def.positive) {
            ops.push(p);
         }
      }
      ops.push(Op::Run { pool: gen_pool_ref(&mut rng, np) });
   }
   case.label = format!("{}/{}/{}", def.name, variant.name(), gname);
   case.actors.push(Actor { program: def.name.to_string(), variant: variant.name().to_string(), ops });
   case
}

/// C20: (a) several instances constructed and run concurrently, (b) pool histories of one instance
fn gen_tenants(seed: u64, index: u64, _thorough: bool) -> Case {
   let check = "C20";
   let mut rng = Rng::new(case_seed(seed, check, index));
   let mut case = base_case(check, seed, index, &mut rng);
   let progs = programs_tagged("c20");
   case.pools = if rng.chance(800) { gen_pools(&mut rng) } else { vec![] };
   let np = case.pools.len();
   let n_actors = if rng.chance(350) { 1 } else { rng.range(2, 3) as usize };
   let mut labels = vec![];
   for _ in 0..n_actors {
      let def = *rng.pick(&progs);
      let variant = if rng.chance(250) { Variant::Ser } else { pick_par_variant(&mut rng) };
      let (gname, mut ops) = gen_input_ops(def, &mut rng);
      ops.insert(0, Op::New { pool: gen_pool_ref(&mut rng, np) });
      ops.push(Op::Run { pool: gen_pool_ref(&mut rng, np) });
      // repeated run under another pool (the "changes between repeated runs" half)
      if rng.chance(if n_actors == 1 { 600 } else { 200 }) {
         ops.push(Op::Run { pool: gen_pool_ref(&mut rng, np) });
      }
      labels.push(format!("{}/{}/{}", def.name, variant.name(), gname));
      case.actors.push(Actor { program: def.name.to_string(), variant: variant.name().to_string(), ops });
   }
   case.label = labels.join("+");
   case
}

pub fn gen_case(check: &str, thorough: bool, seed: u64, index: u64) -> Option<Case> {
   Some(match check {
      "C02" => gen_single_run("C02", "c02", seed, index, 0),
      "C05" => gen_single_run("C05", "c05", seed, index, 80),
      "C10" => gen_single_run("C10", "c10", seed, index, 150),
      "C13" => gen_history(seed, index, thorough),
      "C20" => gen_tenants(seed, index, thorough),
      "C14" => return crate::gen14::gen_case(seed, index, thorough),
      "C19" => {
         let mut rng = Rng::new(case_seed(seed, "C19", index));
         let mut case = base_case("C19", seed, index, &mut rng);
         let sc = crate::c19::gen_scenario(&mut rng, thorough);
         // index-level scenarios are small: arm the "lock held" points and the fewest shards often
         if rng.chance(600) {
            case.knobs.site_mask = u64::MAX;
         }
         if rng.chance(500) {
            case.knobs.shards_override = Some(4);
         }
         if rng.chance(500) {
            case.knobs.steal_permille = 1000;
         }
         case.label = format!("{}/pool{}/construct{}{}", sc.ty, sc.pool, sc.construct_pool, ["", "-split1", "-split2"][sc.split_construct.min(2) as usize]);
         case.index_scenario = Some(sc);
         case
      },
      other => panic!("no generator for check {}", other),
   })
}

pub fn all_rows(ops: &[Op]) -> Vec<Row> {
   ops.iter().filter_map(|o| if let Op::Push { rows, .. } = o { Some(rows.clone()) } else { None }).flatten().collect()
}

pub fn gen_push_pub(def: &ProgramDef, rng: &mut Rng, so_far: &[Op]) -> Option<Op> { gen_push(def, rng, so_far, true) }

//! Seeded case generators: one integer (`VERIF_SEED`) and the case index decide everything.

use vcorpus::prog::{ProgramDef, Variant};
use vcorpus::val::{mix, Rng, Row};

use crate::case::{Actor, Case, Knobs, Op, PoolRef};
use crate::exec::registry;
use crate::sched::{GenMode, SchedPlan};

pub const CHUNK: u64 = 250;
pub const MAX_STEPS: u64 = 2_000_000;

fn str_hash(s: &str) -> u64 { s.bytes().fold(0xcbf29ce484222325u64, |h, b| (h ^ b as u64).wrapping_mul(0x100000001b3)) }

pub fn case_seed(seed: u64, check: &str, index: u64) -> u64 { mix(mix(seed, str_hash(check)), index) }

/// process-level configuration of the chunk a case belongs to
pub fn proc_first_pool(seed: u64, check: &str, index: u64) -> usize {
   let chunk = index / CHUNK;
   let mut r = Rng::new(mix(mix(seed, str_hash(check)), 0xC0FFEE ^ chunk));
   *r.pick(&[1usize, 1, 2, 4, 8, 16])
}

pub fn gen_knobs(rng: &mut Rng) -> Knobs {
   let site_mask = if rng.chance(500) { u64::MAX } else { rng.next_u64() | (1 << verif_rt::Site::DashContended as u64) };
   Knobs {
      global_threads: *rng.pick(&[1usize, 2, 2, 3, 4, 4, 8]),
      steal_permille: *rng.pick(&[0u32, 200, 500, 500, 900, 1000]),
      site_mask,
      shards_override: *rng.pick(&[None, None, None, Some(4usize), Some(16), Some(64)]),
      len_noise: rng.chance(150),
      empty_mask: rng.chance(150),
      noise_seed: rng.next_u64(),
   }
}

pub fn gen_sched(rng: &mut Rng) -> SchedPlan {
   let seed = rng.next_u64();
   let mode = match rng.below(10) {
      0 => GenMode::Default,
      1..=5 => GenMode::RandomWalk { p: *rng.pick(&[50u32, 200, 500]) },
      6..=8 => GenMode::Sparse { n: rng.range(1, 4) as u32, horizon: *rng.pick(&[8u32, 32, 128, 512, 2048]) },
      _ => GenMode::Starve { victim: rng.range(1, 4) as u32, p: *rng.pick(&[50u32, 200]) },
   };
   SchedPlan::Gen { seed, mode }
}

pub fn programs_tagged(tag: &str) -> Vec<&'static ProgramDef> { registry().iter().filter(|p| p.has_tag(tag)).collect() }

pub fn gen_input_ops(def: &ProgramDef, rng: &mut Rng) -> (String, Vec<Op>) {
   let (gname, g) = *rng.pick(&def.gens);
   let input = g(def, rng);
   let ops = input
      .into_iter()
      .map(|(ri, rows)| Op::Push { rel: def.rels[ri].name.to_string(), rows })
      .collect();
   (gname.to_string(), ops)
}

fn base_case(check: &str, seed: u64, index: u64, rng: &mut Rng) -> Case {
   Case {
      check: check.to_string(),
      seed,
      index,
      label: String::new(),
      proc_first_pool: proc_first_pool(seed, check, index),
      pools: vec![],
      knobs: gen_knobs(rng),
      actors: vec![],
      sched: gen_sched(rng),
      max_steps: MAX_STEPS,
      violation: None,
   }
}

fn pick_par_variant(rng: &mut Rng) -> Variant { if rng.chance(400) { Variant::Irp } else { Variant::Par } }

/// C02 / C05: one parallel program, one input, one run
fn gen_single_run(check: &str, tag: &str, seed: u64, index: u64, serial_baseline_permille: u64) -> Case {
   let mut rng = Rng::new(case_seed(seed, check, index));
   let mut case = base_case(check, seed, index, &mut rng);
   let progs = programs_tagged(tag);
   let def = *rng.pick(&progs);
   let variant = if rng.chance(serial_baseline_permille) { Variant::Ser } else { pick_par_variant(&mut rng) };
   let (gname, mut ops) = gen_input_ops(def, &mut rng);
   ops.insert(0, Op::New { pool: PoolRef::Global });
   ops.push(Op::Run { pool: PoolRef::Global });
   case.label = format!("{}/{}/{}", def.name, variant.name(), gname);
   case.actors.push(Actor { program: def.name.to_string(), variant: variant.name().to_string(), ops });
   case
}

pub fn gen_case(check: &str, thorough: bool, seed: u64, index: u64) -> Case {
   let _ = thorough;
   match check {
      "C02" => gen_single_run("C02", "c02", seed, index, 0),
      "C05" => gen_single_run("C05", "c05", seed, index, 80),
      other => panic!("no generator for check {}", other),
   }
}

pub fn all_rows(ops: &[Op]) -> Vec<Row> {
   ops.iter().filter_map(|o| if let Op::Push { rows, .. } = o { Some(rows.clone()) } else { None }).flatten().collect()
}

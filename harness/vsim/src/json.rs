//! JSON encoding of canonical values (kept out of `vcorpus`: serde_json's `PartialEq<Value>`
//! impls for integers would break type inference in ascent-generated code there).
use serde_json::{json, Value as J};
use vcorpus::val::{Row, Val, TAGS};

pub fn val_to_json(v: &Val) -> J {
   match v {
      Val::I(i) => json!(i),
      Val::S(s) => json!(s),
      Val::T(t, xs) => {
         let mut m = serde_json::Map::new();
         m.insert((*t).to_string(), J::Array(xs.iter().map(val_to_json).collect()));
         J::Object(m)
      },
   }
}

pub fn val_from_json(j: &J) -> Result<Val, String> {
   match j {
      J::Number(n) => n.as_i64().map(Val::I).ok_or_else(|| format!("bad number {}", n)),
      J::String(s) => Ok(Val::S(s.clone())),
      J::Object(m) if m.len() == 1 => {
         let (k, v) = m.iter().next().unwrap();
         let tag = TAGS.iter().find(|t| **t == k.as_str()).ok_or_else(|| format!("unknown tag {}", k))?;
         let arr = v.as_array().ok_or("tag payload must be an array")?;
         Ok(Val::T(tag, arr.iter().map(val_from_json).collect::<Result<_, _>>()?))
      },
      other => Err(format!("cannot decode value {}", other)),
   }
}

pub fn row_to_json(r: &Row) -> J { J::Array(r.iter().map(val_to_json).collect()) }
pub fn row_from_json(j: &J) -> Result<Row, String> {
   j.as_array().ok_or("row must be an array")?.iter().map(val_from_json).collect()
}
pub fn rows_to_json(rs: &[Row]) -> J { J::Array(rs.iter().map(row_to_json).collect()) }
pub fn rows_from_json(j: &J) -> Result<Vec<Row>, String> {
   j.as_array().ok_or("rows must be an array")?.iter().map(row_from_json).collect()
}

/// serde adapter for `Vec<Row>` fields
pub mod rows_serde {
   use serde::{Deserialize, Deserializer, Serialize, Serializer};
   use vcorpus::val::Row;

   pub fn serialize<S: Serializer>(rows: &Vec<Row>, s: S) -> Result<S::Ok, S::Error> {
      super::rows_to_json(rows).serialize(s)
   }
   pub fn deserialize<'de, D: Deserializer<'de>>(d: D) -> Result<Vec<Row>, D::Error> {
      let j = serde_json::Value::deserialize(d)?;
      super::rows_from_json(&j).map_err(serde::de::Error::custom)
   }
}

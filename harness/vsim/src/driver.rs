//! `vsim check <id> <tier>`: shards the batch over worker processes, merges, minimises and
//! persists violations, writes the evidence file. Exit 0 / 1 (+ VIOLATION line) / 2 (harness error).

use std::collections::{BTreeMap, BTreeSet};
use std::path::{Path, PathBuf};
use std::process::{Child, Command, Stdio};
use std::time::Instant;

use serde_json::json;

use crate::gen::CHUNK;
use crate::minimize::{replay_subprocess, Minimizer};
use crate::worker::Summary;
use crate::{known, spec};

pub fn harness_error(msg: &str) -> ! {
   println!("HARNESS-ERROR {}", msg);
   eprintln!("harness error: {}", msg);
   std::process::exit(2)
}

fn merge_map(a: &mut BTreeMap<String, u64>, b: &BTreeMap<String, u64>) {
   for (k, v) in b {
      *a.entry(k.clone()).or_insert(0) += v;
   }
}

static BLOCKED: std::sync::atomic::AtomicBool = std::sync::atomic::AtomicBool::new(false);

pub fn run_workers(check: &str, tier: &str, seed: u64, n_cases: u64, jobs: usize, dir: &Path, cap_s: u64) -> Vec<Summary> {
   let exe = std::env::current_exe().unwrap();
   let chunks: Vec<(u64, u64)> = (0..n_cases.div_ceil(CHUNK)).map(|c| (c * CHUNK, ((c + 1) * CHUNK).min(n_cases))).collect();
   let t0 = Instant::now();
   let mut pending = chunks.clone().into_iter().collect::<std::collections::VecDeque<_>>();
   let mut running: Vec<(Child, PathBuf, (u64, u64))> = vec![];
   let mut outs = vec![];
   while !pending.is_empty() || !running.is_empty() {
      while running.len() < jobs {
         let Some((a, b)) = pending.pop_front() else { break };
         let out = dir.join(format!("chunk_{}.json", a / CHUNK));
         let log = std::fs::File::create(dir.join(format!("chunk_{}.log", a / CHUNK))).unwrap();
         let child = Command::new(&exe)
            .args(["worker", "--check", check, "--tier", tier])
            .arg("--seed")
            .arg(seed.to_string())
            .arg("--from")
            .arg(a.to_string())
            .arg("--to")
            .arg(b.to_string())
            .arg("--out")
            .arg(&out)
            .stdout(Stdio::null())
            .stderr(Stdio::from(log))
            .spawn()
            .unwrap_or_else(|e| harness_error(&format!("cannot spawn worker: {}", e)));
         running.push((child, out, (a, b)));
      }
      let mut i = 0;
      let mut progressed = false;
      while i < running.len() {
         match running[i].0.try_wait() {
            Ok(Some(status)) => {
               let (_, out, range) = running.remove(i);
               if status.code() == Some(4) {
                  // blocked on a lock the simulator cannot model: Engine A has no verdict; let the caller
                  // ask Engine B (real threads) before giving up
                  for (c, _, _) in running.iter_mut() {
                     let _ = c.kill();
                  }
                  BLOCKED.store(true, std::sync::atomic::Ordering::SeqCst);
                  return vec![];
               }
               if status.code() == Some(3) {
                  // the worker's wall-clock watchdog fired: one execution never reached a scheduling point
                  let hang = out.with_extension("hang.json");
                  for (c, _, _) in running.iter_mut() {
                     let _ = c.kill();
                  }
                  report_hang(check, &hang);
               }
               if !status.success() {
                  harness_error(&format!(
                     "worker for cases {}..{} of {} ended with {:?} (log: {})",
                     range.0,
                     range.1,
                     check,
                     status,
                     dir.join(format!("chunk_{}.log", range.0 / CHUNK)).display()
                  ));
               }
               outs.push(out);
               progressed = true;
            },
            Ok(None) => i += 1,
            Err(e) => harness_error(&format!("wait failed: {}", e)),
         }
      }
      if t0.elapsed().as_secs() > cap_s {
         for (c, _, _) in running.iter_mut() {
            let _ = c.kill();
         }
         harness_error(&format!("wall-clock cap of {} s hit for {} {}", cap_s, check, tier));
      }
      if !progressed {
         std::thread::sleep(std::time::Duration::from_millis(20));
      }
   }
   let mut sums: Vec<Summary> = outs
      .iter()
      .map(|p| {
         let s = std::fs::read_to_string(p).unwrap_or_else(|e| harness_error(&format!("missing summary {}: {}", p.display(), e)));
         serde_json::from_str(&s).unwrap_or_else(|e| harness_error(&format!("bad summary {}: {}", p.display(), e)))
      })
      .collect();
   sums.sort_by_key(|s| s.from);
   sums
}

pub fn merge(sums: &[Summary]) -> Summary {
   let mut m = Summary::default();
   for s in sums {
      m.check = s.check.clone();
      m.evaluations += s.evaluations;
      m.nontrivial_hashes.extend(&s.nontrivial_hashes);
      m.digests.extend(&s.digests);
      m.steps += s.steps;
      m.max_steps_seen = m.max_steps_seen.max(s.max_steps_seen);
      m.switches += s.switches;
      m.preemptions += s.preemptions;
      m.deviations += s.deviations;
      m.draws += s.draws;
      m.tasks += s.tasks;
      merge_map(&mut m.sites, &s.sites);
      merge_map(&mut m.probes, &s.probes);
      merge_map(&mut m.pool, &s.pool);
      merge_map(&mut m.faults, &s.faults);
      merge_map(&mut m.labels, &s.labels);
      m.clock_readings += s.clock_readings;
      m.clock_ns = m.clock_ns.saturating_add(s.clock_ns);
      m.inconclusive += s.inconclusive;
      merge_map(&mut m.extra, &s.extra);
      if m.samples.len() < 3 {
         m.samples.extend(s.samples.iter().take(3 - m.samples.len()).cloned());
      }
      m.violations.extend(s.violations.iter().cloned());
      m.wall_s += s.wall_s;
   }
   m.violations.sort_by_key(|f| f.case.index);
   m
}

pub fn check_main(id: &str, tier: &str) -> ! {
   let t0 = Instant::now();
   let seed: u64 = std::env::var("VERIF_SEED").ok().and_then(|s| s.parse().ok()).unwrap_or(1);
   let jobs: usize = std::env::var("VERIF_JOBS").ok().and_then(|s| s.parse().ok()).unwrap_or(16);
   let thorough = tier == "thorough";
   let sp = spec::spec(id).unwrap_or_else(|| harness_error(&format!("unknown check {}", id)));
   let n_cases = if thorough { sp.thorough_cases } else { sp.quick_cases };
   let n_cases = std::env::var("VERIF_CASES").ok().and_then(|s| s.parse().ok()).unwrap_or(n_cases);
   let dir = PathBuf::from(format!("/verif/work/{}_{}", id, tier));
   let _ = std::fs::remove_dir_all(&dir);
   std::fs::create_dir_all(&dir).unwrap_or_else(|e| harness_error(&format!("cannot create {}: {}", dir.display(), e)));
   std::fs::create_dir_all("/verif/replays").ok();
   std::fs::create_dir_all("/verif/evidence").ok();

   let sums = run_workers(id, tier, seed, n_cases, jobs, &dir, if thorough { 3 * 3600 } else { 1500 });
   if BLOCKED.load(std::sync::atomic::Ordering::SeqCst) {
      // Engine A got stuck on an OS-level lock held across a scheduling point. Engine B runs real
      // threads and can still decide; without a report from it there is no verdict (exit 2).
      let known_entries = known::load();
      match crate::engine_b::run_all(id, thorough, seed, &dir, jobs.min(8)) {
         Ok(rep) => {
            for (mut job, out) in rep.reports {
               let class = out.class.clone().unwrap();
               if known::matching_miri(&known_entries, id, &class, &out.repo_frame).is_some() {
                  continue;
               }
               let path = PathBuf::from("/verif/replays").join(format!("{}-miri-{}-{}.json", id, job.scenario, job.input_seed));
               job.violation = Some(crate::case::ViolationInfo { property: id.to_string(), class: class.clone(), detail: out.detail.clone(), trace_hash: 0 });
               std::fs::write(&path, serde_json::to_string_pretty(&job).unwrap()).unwrap();
               println!("note: Engine A could not run this tree to completion (a lock of the runtime that the simulator does not model is held across a parallel operation); verdict by Engine B");
               println!("violation: {}: {}", class, out.detail);
               println!("VIOLATION property={} replay={}", id, path.display());
               std::process::exit(1);
            }
         },
         Err(e) => harness_error(&e),
      }
      harness_error(&format!(
         "a worker of {} got blocked on a real (std/OS) lock that a descheduled simulated task holds: the runtime under test holds a lock this simulator does not model across a parallel operation, and Engine B reported nothing; no verdict",
         id
      ));
   }
   let m = merge(&sums);
   let shard_values: BTreeSet<usize> = sums.iter().map(|s| s.shards_lazy).collect();

   // --- violations -------------------------------------------------------------------------
   let known_entries = known::load();
   let mut known_hit: BTreeMap<String, u64> = BTreeMap::new();
   let mut reported: Option<(String, String)> = None;
   let mut unlisted = 0u64;
   for f in m.violations.iter() {
      if let Some(e) = known::matching(&known_entries, id, &f.case, &f.violation) {
         *known_hit.entry(e.what.clone()).or_insert(0) += 1;
         continue;
      }
      unlisted += 1;
      if reported.is_some() {
         continue;
      }
      // explicit replay must reproduce before anything is reported
      let mut case = f.case.clone();
      let probe = dir.join("found.json");
      std::fs::write(&probe, serde_json::to_string(&case).unwrap()).unwrap();
      match replay_subprocess(&probe) {
         Ok(r) if r.class.as_deref() == Some(f.violation.class.as_str()) => {},
         Ok(r) => harness_error(&format!(
            "violation {} of case {} did not reproduce from its literal schedule (got {:?}); not reporting something that cannot be replayed",
            f.violation.class, f.case.index, r.class
         )),
         Err(e) => harness_error(&format!("replay subprocess failed: {}", e)),
      }
      let mut mini = Minimizer::new(&dir, &f.violation.class, 300, 60);
      case = mini.minimize(case);
      let name = format!("{}-{:016x}.json", id, f.trace_hash);
      let path = PathBuf::from("/verif/replays").join(&name);
      // final replays of the minimised file, in fresh processes
      std::fs::write(&path, serde_json::to_string_pretty(&case).unwrap()).unwrap();
      let r1 = replay_subprocess(&path).unwrap_or_else(|e| harness_error(&e));
      let r2 = replay_subprocess(&path).unwrap_or_else(|e| harness_error(&e));
      if r1 != r2 || r1.class.as_deref() != Some(f.violation.class.as_str()) {
         harness_error(&format!("minimised replay file {} is not stable: {:?} vs {:?}", path.display(), r1, r2));
      }
      case.violation = Some(crate::case::ViolationInfo {
         property: id.to_string(),
         class: f.violation.class.clone(),
         detail: r1.detail.clone(),
         trace_hash: r1.hash,
      });
      std::fs::write(&path, serde_json::to_string_pretty(&case).unwrap()).unwrap();
      eprintln!(
         "minimised with {} candidates ({} accepted): {} -> {}",
         mini.tried, mini.accepted, f.violation.detail, r1.detail
      );
      reported = Some((path.display().to_string(), format!("{}: {}", f.violation.class, r1.detail)));
   }

   // --- Engine B (Miri, nothing stubbed): cross-check of what Engine A abstracts ---------------
   let mut engine_b = json!({"run": false, "why": "skipped because Engine A already reported a violation"});
   if reported.is_none() && std::env::var_os("VERIF_NO_MIRI").is_none() {
      match crate::engine_b::run_all(id, thorough, seed, &dir, jobs.min(8)) {
         Ok(rep) => {
            engine_b = rep.evidence;
            for (mut job, out) in rep.reports {
               let class = out.class.clone().unwrap();
               if let Some(e) = known::matching_miri(&known_entries, id, &class, &out.repo_frame) {
                  *known_hit.entry(e.what.clone()).or_insert(0) += 1;
                  continue;
               }
               unlisted += 1;
               if reported.is_some() {
                  continue;
               }
               let name = format!("{}-miri-{}-{}.json", id, job.scenario, job.input_seed);
               let path = PathBuf::from("/verif/replays").join(&name);
               job.violation = Some(crate::case::ViolationInfo { property: id.to_string(), class: class.clone(), detail: out.detail.clone(), trace_hash: 0 });
               std::fs::write(&path, serde_json::to_string_pretty(&job).unwrap()).unwrap();
               // replay once in a fresh process: same seeds, same report class
               let again = crate::engine_b::run_job(&job, &dir.join("miri_replay.log")).unwrap_or_else(|e| harness_error(&e));
               if again.class.as_deref() != Some(class.as_str()) {
                  harness_error(&format!("Engine B report {} did not reproduce on replay (got {:?})", class, again.class));
               }
               reported = Some((path.display().to_string(), format!("{}: {}", class, out.detail)));
            }
         },
         Err(e) => harness_error(&e),
      }
   }

   // --- evidence -----------------------------------------------------------------------------
   let distinct: BTreeSet<u64> = m.nontrivial_hashes.iter().cloned().collect();
   let wall = t0.elapsed().as_secs_f64();
   let mut warnings: Vec<String> = vec![];
   for p in sp.expected_probes.iter() {
      if m.faults.get(*p).cloned().unwrap_or(0) == 0 && m.probes.get(*p).cloned().unwrap_or(0) == 0 {
         warnings.push(format!("reach probe '{}' never fired in this batch", p));
      }
   }
   if m.max_steps_seen * 20 > crate::gen::MAX_STEPS {
      warnings.push(format!("largest execution used {} steps; budget {} is less than 20x that", m.max_steps_seen, crate::gen::MAX_STEPS));
   }
   let evidence = json!({
      "property_id": id,
      "tier": tier,
      "seed": seed,
      "level": sp.level,
      "wall_s": wall,
      "violations": unlisted,
      "coverage": {
         "evaluations": m.evaluations,
         "distinct_nontrivial": distinct.len(),
         "rule": sp.rule,
         "samples": m.samples,
         "exhaustive": sp.id == "C14" && m.extra.get("groups_truncated_at_ENUM_checks").cloned().unwrap_or(0) == 0 && m.extra.get("groups(program,input,schedule)").cloned().unwrap_or(0) > 0,
         "simulated_runs_per_hour": (m.evaluations as f64 / wall.max(0.001) * 3600.0) as u64,
         "seeds": format!("VERIF_SEED={} -> per-case seed mix(VERIF_SEED, check, index), index 0..{}", seed, n_cases),
         "simulated_steps": m.steps,
         "largest_execution_steps": m.max_steps_seen,
         "step_budget": crate::gen::MAX_STEPS,
         "context_switches": m.switches,
         "preemptions": m.preemptions,
         "schedule_deviations": m.deviations,
         "prng_draws_consumed_by_simulated_code": m.draws,
         "simulated_tasks": m.tasks,
         "simulated_clock_readings": m.clock_readings,
         "simulated_ns": m.clock_ns,
         "fault_kinds_fired": m.faults,
         "yield_sites_hit": m.sites,
         "probes": m.probes,
         "pool_events": m.pool,
         "process_level_shard_counts_seen": shard_values,
         "workloads(program/variant/input_generator)": m.labels,
         "inconclusive_runs(panic_or_deadlock_left_to_C02)": m.inconclusive,
         "check_specific": m.extra,
         "known_findings_matched": known_hit,
         "warnings": warnings,
         "engine_b_miri": engine_b,
         "real_vs_stub": spec::real_vs_stub(),
      },
      "assumptions": sp.assumptions,
   });
   let ev_path = format!("/verif/evidence/{}.json", id);
   std::fs::write(&ev_path, serde_json::to_string_pretty(&evidence).unwrap())
      .unwrap_or_else(|e| harness_error(&format!("cannot write {}: {}", ev_path, e)));

   for w in warnings.iter() {
      println!("WARNING: {}", w);
   }
   for (what, n) in known_hit.iter() {
      println!("KNOWN-FINDING: property={} {} ({} executions)", id, what, n);
   }
   println!(
      "{} {}: {} executions, {} distinct non-trivial interleavings, {} steps, {:.1}s, {} unlisted violation(s)",
      id, tier, m.evaluations, distinct.len(), m.steps, wall, unlisted
   );
   if let Some((path, what)) = reported {
      println!("violation: {}", what);
      println!("VIOLATION property={} replay={}", id, path);
      std::process::exit(1);
   }
   std::process::exit(0)
}

/// Determinism self-check (DESIGN.md §2.7): the same cases executed twice, in separate processes,
/// once by 1 worker and once by up to 16 workers; per-case trace hashes and result digests must agree.
pub fn selfcheck_main(checks: &[String], n_cases: u64) -> ! {
   let seed: u64 = std::env::var("VERIF_SEED").ok().and_then(|s| s.parse().ok()).unwrap_or(1);
   std::env::set_var("VSIM_DIGESTS", "1");
   let mut total = 0u64;
   for id in checks {
      let mut runs = vec![];
      for (tag, jobs) in [("a", 3usize), ("b", 16usize)] {
         let dir = PathBuf::from(format!("/verif/work/selfcheck_{}_{}", id, tag));
         let _ = std::fs::remove_dir_all(&dir);
         std::fs::create_dir_all(&dir).unwrap_or_else(|e| harness_error(&format!("cannot create {}: {}", dir.display(), e)));
         let sums = run_workers(id, "quick", seed, n_cases, jobs, &dir, 1200);
         let mut d = merge(&sums).digests;
         d.sort();
         runs.push(d);
      }
      if runs[0] != runs[1] {
         let diff = runs[0].iter().zip(runs[1].iter()).find(|(a, b)| a != b);
         harness_error(&format!("determinism self-check failed for {}: first difference {:?}", id, diff));
      }
      total += runs[0].len() as u64;
      println!("selfcheck {}: {} executions x 2 runs (3 vs 16 worker processes): identical trace hashes and result digests", id, runs[0].len());
   }
   println!("selfcheck ok: {} executions compared", total);
   std::process::exit(0)
}

/// A worker reported an execution that spins without reaching a scheduling point. Confirm it by
/// replaying the case in a fresh process (which has the same watchdog), then report it.
fn report_hang(check: &str, hang_file: &Path) -> ! {
   let text = std::fs::read_to_string(hang_file).unwrap_or_else(|e| harness_error(&format!("watchdog fired but {} is unreadable: {}", hang_file.display(), e)));
   let case: crate::case::Case = serde_json::from_str(&text).unwrap_or_else(|e| harness_error(&format!("bad hang file: {}", e)));
   std::fs::create_dir_all("/verif/replays").ok();
   let path = PathBuf::from(format!("/verif/replays/{}-hang-{}.json", check, case.index));
   std::fs::write(&path, serde_json::to_string_pretty(&case).unwrap()).unwrap();
   match replay_subprocess(&path) {
      Ok(r) if r.class.as_deref() == Some("no-termination") => {
         println!("violation: no-termination: case {} ({}) spins for more than {} s of wall clock without reaching a scheduling point", case.index, case.label, crate::worker::HANG_LIMIT_S);
         println!("VIOLATION property={} replay={}", check, path.display());
         std::process::exit(1)
      },
      Ok(r) => harness_error(&format!("a worker's watchdog fired on case {} but the replay ended with {:?}", case.index, r.class)),
      Err(e) => harness_error(&format!("a worker's watchdog fired on case {} and the replay failed: {}", case.index, e)),
   }
}

//! A *case* is literally everything one simulated execution consumes; it is also the replay file.

use serde::{Deserialize, Serialize};
use vcorpus::val::Row;

use crate::sched::SchedPlan;

#[derive(Clone, Debug, Serialize, Deserialize, PartialEq)]
#[serde(rename_all = "snake_case")]
pub enum PoolRef {
   /// not inside any `install`: rayon calls go to the global simulated pool
   Global,
   /// `pools[i].install(..)`
   Pool(usize),
   /// `pools[i].install(|| pools[j].install(..))`
   Nested(usize, usize),
}

#[derive(Clone, Debug, Serialize, Deserialize, PartialEq)]
#[serde(tag = "op", rename_all = "snake_case")]
pub enum Op {
   /// (re)construct the program value with `Default::default()` under the given pool
   New { pool: PoolRef },
   Push {
      rel: String,
      #[serde(with = "crate::json::rows_serde")]
      rows: Vec<Row>,
   },
   Run { pool: PoolRef },
   /// `run_timeout`; the virtual clock follows `tick_ns` per reading and `jumps`
   /// (`(reading index counted from this call, ns)`); `timeout_ns == u64::MAX` means `Duration::MAX`
   RunTimeout { pool: PoolRef, timeout_ns: u64, tick_ns: u64, jumps: Vec<(u64, u64)> },
}

#[derive(Clone, Debug, Serialize, Deserialize, PartialEq)]
pub struct Actor {
   pub program: String,
   pub variant: String,
   pub ops: Vec<Op>,
}

#[derive(Clone, Debug, Serialize, Deserialize, PartialEq)]
pub struct Knobs {
   /// size of the global simulated pool
   pub global_threads: usize,
   /// probability (1/1000) that stealable work migrates when a worker is free
   pub steal_permille: u32,
   /// bit mask over `verif_rt::Site`: which yield-point kinds are armed
   pub site_mask: u64,
   /// DashMap shard amount override (power of two); None = the process-wide Lazy decides
   pub shards_override: Option<usize>,
   /// buggify: perturb `len_estimate()` of the simple-join heuristic
   pub len_noise: bool,
   /// buggify: `is_empty()` fast path forced to its conservative `false`
   pub empty_mask: bool,
   pub noise_seed: u64,
}

impl Default for Knobs {
   fn default() -> Self {
      Knobs {
         global_threads: 4,
         steal_permille: 500,
         site_mask: u64::MAX,
         shards_override: None,
         len_noise: false,
         empty_mask: false,
         noise_seed: 1,
      }
   }
}

#[derive(Clone, Debug, Serialize, Deserialize, PartialEq)]
pub struct Case {
   pub check: String,
   /// generator bookkeeping (not needed for replay)
   pub seed: u64,
   pub index: u64,
   pub label: String,
   /// size of the pool that was current when the process-wide `shards_count()` Lazy was first
   /// evaluated in the executing process (process-level configuration)
   pub proc_first_pool: usize,
   /// sizes of the custom pools built at the start of the execution
   pub pools: Vec<usize>,
   pub knobs: Knobs,
   /// actor 0 runs on the main simulated thread, further actors on their own simulated threads
   pub actors: Vec<Actor>,
   pub sched: SchedPlan,
   pub max_steps: u64,
   /// C19 only: an index-level scenario instead of program actors
   #[serde(default, skip_serializing_if = "Option::is_none")]
   pub index_scenario: Option<crate::c19::IndexScenario>,
   /// filled in by the harness when a violation is persisted
   #[serde(default, skip_serializing_if = "Option::is_none")]
   pub violation: Option<ViolationInfo>,
}

#[derive(Clone, Debug, Serialize, Deserialize, PartialEq)]
pub struct ViolationInfo {
   pub property: String,
   pub class: String,
   pub detail: String,
   pub trace_hash: u64,
}

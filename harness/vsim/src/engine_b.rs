//! Engine B ("miri-real", DESIGN.md §2.8): the unhooked /repo crates with the real rayon-core,
//! crossbeam, dashmap and boxcar, interpreted by Miri. Per seed, Miri's scheduler, weak-memory
//! emulation and data-race detector are deterministic. A slower cross-check of what Engine A
//! abstracts (real work stealing, real lock contention, relaxed atomics, unsynchronised accesses).

use std::path::{Path, PathBuf};
use std::process::{Command, Stdio};
use std::time::Instant;

use serde::{Deserialize, Serialize};
use serde_json::json;

pub const MIRI_DIR: &str = "/verif/miri";
pub const FLAGS: &str = "-Zmiri-tree-borrows -Zmiri-ignore-leaks -Zmiri-preemption-rate=0.05 -Zmiri-permissive-provenance";

#[derive(Clone, Debug, Serialize, Deserialize, PartialEq)]
pub struct MiriJob {
   pub engine: String,
   pub check: String,
   pub scenario: String,
   pub input_seed: u64,
   pub miri_seed_from: u64,
   pub miri_seed_to: u64,
   #[serde(default, skip_serializing_if = "Option::is_none")]
   pub violation: Option<crate::case::ViolationInfo>,
}

#[derive(Clone, Debug)]
pub struct MiriOutcome {
   pub ok_runs: u64,
   pub class: Option<String>,
   pub detail: String,
   /// innermost backtrace frame that lies in /repo: "<function> at /repo/<file>"
   pub repo_frame: String,
   pub wall_s: f64,
}

fn spawn(job: &MiriJob, log: &Path) -> std::io::Result<std::process::Child> {
   // `tenants` runs two instances at once: the unsynchronised `static mut` timing counters of
   // ascent::internal would stop Miri at once, so that scenario runs without the race detector
   // `shared-pool` runs several instances on one pool: there the unsynchronised counters collide so
   // often that the aliasing model has to be off as well; that scenario looks for deadlocks, panics
   // and wrong results only. `first-use` releases four instances under pools of two sizes into their
   // construction at the same instant (first evaluation of process-wide lazies): same flags.
   let flags = match job.scenario.as_str() {
      "tenants" => format!("-Zmiri-many-seeds={}..{} {} -Zmiri-disable-data-race-detector", job.miri_seed_from, job.miri_seed_to, FLAGS),
      "shared-pool" | "first-use" => format!(
         "-Zmiri-many-seeds={}..{} -Zmiri-ignore-leaks -Zmiri-preemption-rate=0.05 -Zmiri-permissive-provenance -Zmiri-disable-data-race-detector -Zmiri-disable-stacked-borrows",
         job.miri_seed_from, job.miri_seed_to
      ),
      _ => format!("-Zmiri-many-seeds={}..{} {}", job.miri_seed_from, job.miri_seed_to, FLAGS),
   };
   let out = std::fs::File::create(log)?;
   let err = out.try_clone()?;
   Command::new("cargo")
      .current_dir(MIRI_DIR)
      .args(["+nightly", "miri", "run", "--offline", "-q", "--", &job.scenario, &job.input_seed.to_string()])
      .env("MIRIFLAGS", flags)
      .env("CARGO_NET_OFFLINE", "true")
      .env_remove("RUSTFLAGS")
      .stdout(Stdio::from(out))
      .stderr(Stdio::from(err))
      .spawn()
}

fn parse(log: &Path, wall_s: f64) -> MiriOutcome {
   let text = std::fs::read_to_string(log).unwrap_or_default();
   let ok_runs = text.lines().filter(|l| l.starts_with("OK ")).count() as u64;
   let mut class = None;
   let mut detail = String::new();
   let mut repo_frame = String::new();
   let lines: Vec<&str> = text.lines().collect();
   for (i, l) in lines.iter().enumerate() {
      if let Some(rest) = l.strip_prefix("ORACLE-VIOLATION ") {
         class = Some("oracle".to_string());
         detail = rest.to_string();
         break;
      }
      if l.starts_with("error: Undefined Behavior") || l.starts_with("error: unsupported operation") || l.starts_with("error: deadlock") || l.starts_with("error: the evaluated program") {
         if l.contains("deadlocked") {
            class = Some("deadlock".to_string());
            detail = "Miri: the evaluated program deadlocked".to_string();
            break;
         }
         // location: the next "-->" line
         let loc = lines[i + 1..].iter().take(4).find(|x| x.trim_start().starts_with("-->")).map(|x| x.trim().trim_start_matches("--> ").to_string()).unwrap_or_default();
         let file_line = loc.rsplitn(2, ':').nth(1).unwrap_or(&loc).to_string();
         let kind = if l.contains("Data race") { "data-race" } else if l.contains("deadlock") { "deadlock" } else if l.contains("Undefined Behavior") { "undefined-behavior" } else { "miri-error" };
         class = Some(format!("{}:{}", kind, file_line));
         detail = format!("{} at {}", l.trim_start_matches("error: "), loc);
         // innermost /repo frame of the backtrace: "N: <function>" followed by "at /repo/...:line:col"
         for j in i..lines.len().saturating_sub(1) {
            if lines[j + 1].trim_start().starts_with("at /repo/") {
               let func = lines[j].trim().splitn(2, ": ").nth(1).unwrap_or(lines[j].trim());
               let file = lines[j + 1].trim().trim_start_matches("at ").split(':').next().unwrap_or("");
               repo_frame = format!("{} at {}", func, file);
               break;
            }
         }
         if !repo_frame.is_empty() {
            detail = format!("{} (innermost /repo frame: {})", detail, repo_frame);
         }
         break;
      }
      if l.contains("panicked at") {
         class = Some("panic".to_string());
         detail = l.to_string();
         break;
      }
   }
   MiriOutcome { ok_runs, class, detail, repo_frame, wall_s }
}

pub fn run_job(job: &MiriJob, log: &Path) -> Result<MiriOutcome, String> {
   let t0 = Instant::now();
   let mut child = spawn(job, log).map_err(|e| format!("cannot start cargo +nightly miri: {}", e))?;
   let status = child.wait().map_err(|e| e.to_string())?;
   let out = parse(log, t0.elapsed().as_secs_f64());
   let expected = job.miri_seed_to - job.miri_seed_from;
   if out.class.is_none() && (!status.success() || out.ok_runs != expected) {
      return Err(format!(
         "Engine B job {:?} ended with {:?} and {} of {} OK lines but no recognised report (log: {})",
         job.scenario, status.code(), out.ok_runs, expected, log.display()
      ));
   }
   Ok(out)
}

/// jobs of a check for a tier: (scenario, input seeds, miri seeds per input)
pub fn jobs(check: &str, thorough: bool, seed: u64) -> Vec<MiriJob> {
   let plan: Vec<(&str, u64, u64)> = match (check, thorough) {
      ("C02", false) => vec![("tc", 1, 4), ("sp", 1, 4)],
      ("C02", true) => vec![("tc", 6, 16), ("sp", 6, 16)],
      ("C05", false) => vec![("tc", 1, 4), ("index", 1, 4)],
      ("C05", true) => vec![("tc", 6, 16), ("index", 4, 16)],
      ("C19", false) => vec![("index", 2, 4)],
      ("C19", true) => vec![("index", 12, 16)],
      ("C20", false) => vec![("tc-pools", 1, 4), ("tenants", 1, 4), ("shared-pool", 3, 8), ("first-use", 2, 6)],
      ("C20", true) => vec![("tc-pools", 8, 16), ("tenants", 6, 16), ("shared-pool", 8, 16), ("first-use", 8, 16)],
      _ => vec![],
   };
   let mut v = vec![];
   for (scenario, inputs, seeds) in plan {
      for i in 0..inputs {
         v.push(MiriJob {
            engine: "miri".into(),
            check: check.to_string(),
            scenario: scenario.to_string(),
            input_seed: vcorpus::val::mix(seed, 0xB000 + i),
            miri_seed_from: i * seeds,
            miri_seed_to: (i + 1) * seeds,
            violation: None,
         });
      }
   }
   v
}

pub struct EngineBReport {
   pub evidence: serde_json::Value,
   /// every job that ended with a report (UB, data race, panic, oracle violation)
   pub reports: Vec<(MiriJob, MiriOutcome)>,
}

pub fn run_all(check: &str, thorough: bool, seed: u64, dir: &Path, max_parallel: usize) -> Result<EngineBReport, String> {
   let jobs = jobs(check, thorough, seed);
   if jobs.is_empty() {
      return Ok(EngineBReport { evidence: json!({"run": false, "why": "no Engine B scenario for this property"}), reports: vec![] });
   }
   let t0 = Instant::now();
   // one job first (it builds), the rest in parallel
   let mut outcomes: Vec<(MiriJob, MiriOutcome)> = vec![];
   let first_log = dir.join("miri_0.log");
   let o = run_job(&jobs[0], &first_log)?;
   outcomes.push((jobs[0].clone(), o));
   let mut pending: std::collections::VecDeque<(usize, MiriJob)> = jobs.iter().cloned().enumerate().skip(1).collect();
   let mut running: Vec<(usize, MiriJob, std::process::Child, PathBuf, Instant)> = vec![];
   while !pending.is_empty() || !running.is_empty() {
      while running.len() < max_parallel {
         let Some((i, job)) = pending.pop_front() else { break };
         let log = dir.join(format!("miri_{}.log", i));
         let child = spawn(&job, &log).map_err(|e| e.to_string())?;
         running.push((i, job, child, log, Instant::now()));
      }
      let mut k = 0;
      let mut progressed = false;
      while k < running.len() {
         if let Some(status) = running[k].2.try_wait().map_err(|e| e.to_string())? {
            let (_, job, _, log, t) = running.remove(k);
            let out = parse(&log, t.elapsed().as_secs_f64());
            let expected = job.miri_seed_to - job.miri_seed_from;
            if out.class.is_none() && (!status.success() || out.ok_runs != expected) {
               return Err(format!("Engine B job {} ended with {:?} without a recognised report (log: {})", job.scenario, status.code(), log.display()));
            }
            outcomes.push((job, out));
            progressed = true;
         } else {
            k += 1;
         }
      }
      if !progressed {
         std::thread::sleep(std::time::Duration::from_millis(50));
      }
   }
   let runs: u64 = outcomes.iter().map(|(_, o)| o.ok_runs).sum();
   let reports: Vec<(MiriJob, MiriOutcome)> = outcomes.iter().filter(|(_, o)| o.class.is_some()).cloned().collect();
   let evidence = json!({
      "run": true,
      "what": "cargo +nightly miri run on /verif/miri (unhooked /repo crates, real rayon-core/crossbeam/dashmap/boxcar), Tree Borrows, data-race detector, weak-memory emulation, preemption rate 0.05",
      "scenarios": outcomes.iter().map(|(j, o)| json!({"scenario": j.scenario, "input_seed": j.input_seed, "miri_seeds": format!("{}..{}", j.miri_seed_from, j.miri_seed_to), "ok_runs": o.ok_runs, "wall_s": o.wall_s, "report": o.class})).collect::<Vec<_>>(),
      "executions_without_report": runs,
      "wall_s": t0.elapsed().as_secs_f64(),
   });
   Ok(EngineBReport { evidence, reports })
}

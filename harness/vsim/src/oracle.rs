//! Oracles (DESIGN.md §2.4): evaluated over the recorded observation of one case.
//! They compare sets / multisets / key->value maps only; never row order, iteration counts or time.

use std::collections::BTreeMap;

use serde::{Deserialize, Serialize};
use vcorpus::prog::{ProgramDef, Variant};
use vcorpus::val::Row;

use crate::case::{Actor, Case, Op};
use crate::exec::{program, Failure, Observation, Snap};

#[derive(Clone, Debug, Serialize, Deserialize, PartialEq)]
pub struct Violation {
   pub class: String,
   pub detail: String,
   /// the relation the oracle found wrong (None for panics / deadlocks)
   #[serde(default)]
   pub rel: Option<String>,
   /// every relation that differs (for equality-type oracles); used to match known findings
   #[serde(default)]
   pub rels: Vec<String>,
   /// where in the history the violating snapshot was taken
   #[serde(default)]
   pub actor: Option<usize>,
   #[serde(default)]
   pub op: Option<usize>,
}

fn v(class: &str, detail: String) -> Option<Violation> { Some(Violation { class: class.to_string(), detail, rel: None, rels: vec![], actor: None, op: None }) }

fn vr(class: &str, rel: &str, detail: String) -> Option<Violation> {
   Some(Violation { class: class.to_string(), detail, rel: Some(rel.to_string()), rels: vec![rel.to_string()], actor: None, op: None })
}

pub type Facts = Vec<(String, Vec<Row>)>;

/// The reference model: the serial twin (of the reference program) run once, fresh, on `facts`.
pub fn reference(def: &ProgramDef, facts: &Facts) -> BTreeMap<String, Vec<Row>> {
   let rdef = match def.reference {
      Some(name) => program(name),
      None => def,
   };
   let mut inst = (rdef.make)(Variant::Ser);
   for (rel, rows) in facts {
      if let Some(ri) = rdef.rel_index(rel) {
         for r in rows {
            inst.push(ri, r);
         }
      }
   }
   inst.run();
   let snap = inst.snapshot();
   rdef.rels.iter().zip(snap).filter(|(m, _)| m.io).map(|(m, rows)| (m.name.to_string(), rows)).collect()
}

fn multiset(rows: &[Row]) -> BTreeMap<&Row, usize> {
   let mut m = BTreeMap::new();
   for r in rows {
      *m.entry(r).or_insert(0) += 1;
   }
   m
}

fn short(r: &Row) -> String { format!("{:?}", r) }

/// set equality of a relation (key -> value equality for a lattice) against the reference
fn equal_to_reference(
   def: &ProgramDef, rels: &[Vec<Row>], reference: &BTreeMap<String, Vec<Row>>, ctx: &str,
) -> Option<Violation> {
   let mut first = equal_to_reference_first(def, rels, reference, ctx)?;
   first.rels = def
      .rels
      .iter()
      .zip(rels)
      .filter(|(m, rows)| {
         m.io && reference.get(m.name).map_or(false, |want| {
            rows.iter().collect::<std::collections::BTreeSet<_>>() != want.iter().collect::<std::collections::BTreeSet<_>>()
         })
      })
      .map(|(m, _)| m.name.to_string())
      .collect();
   Some(first)
}

fn equal_to_reference_first(
   def: &ProgramDef, rels: &[Vec<Row>], reference: &BTreeMap<String, Vec<Row>>, ctx: &str,
) -> Option<Violation> {
   for (meta, rows) in def.rels.iter().zip(rels) {
      if !meta.io {
         continue;
      }
      let Some(want) = reference.get(meta.name) else { continue };
      let got: std::collections::BTreeSet<&Row> = rows.iter().collect();
      let want: std::collections::BTreeSet<&Row> = want.iter().collect();
      if got == want {
         continue;
      }
      if meta.lattice {
         let k = meta.arity - 1;
         let gm: BTreeMap<&[vcorpus::Val], &Row> = got.iter().map(|r| (&r[..k], *r)).collect();
         let wm: BTreeMap<&[vcorpus::Val], &Row> = want.iter().map(|r| (&r[..k], *r)).collect();
         if gm.len() != got.len() {
            return vr("duplicate-key", meta.name, format!("{}: lattice {} holds several rows for one key", ctx, meta.name));
         }
         for (key, w) in wm.iter() {
            match gm.get(key) {
               None => return vr("missing-tuple", meta.name, format!("{}: lattice {} lacks key of {}", ctx, meta.name, short(w))),
               Some(g) if g != w =>
                  return vr("lattice-value", meta.name, format!("{}: lattice {} has {} expected {}", ctx, meta.name, short(g), short(w)),
                  ),
               _ => {},
            }
         }
         return match gm.iter().find(|(k, _)| !wm.contains_key(*k)) {
            Some(extra) => vr("extra-tuple", meta.name, format!("{}: lattice {} has unexpected {}", ctx, meta.name, short(extra.1))),
            // same keys, same value per key in the maps, yet different row sets: the *reference* holds
            // several rows for one key
            None => vr("lattice-value", meta.name, format!("{}: lattice {} differs from the reference, which holds several rows for one key", ctx, meta.name)),
         };
      }
      if let Some(m) = want.difference(&got).next() {
         return vr("missing-tuple", meta.name, format!("{}: relation {} lacks {}", ctx, meta.name, short(m)));
      }
      let e = got.difference(&want).next().unwrap();
      return vr("extra-tuple", meta.name, format!("{}: relation {} has underivable {}", ctx, meta.name, short(e)));
   }
   None
}

/// every tuple present is in the reference; lattice values are below the reference's
fn subset_of_reference(
   def: &ProgramDef, rels: &[Vec<Row>], reference: &BTreeMap<String, Vec<Row>>, ctx: &str,
) -> Option<Violation> {
   for (meta, rows) in def.rels.iter().zip(rels) {
      if !meta.io {
         continue;
      }
      let Some(want) = reference.get(meta.name) else { continue };
      if meta.lattice {
         let k = meta.arity - 1;
         let wm: BTreeMap<&[vcorpus::Val], &Row> = want.iter().map(|r| (&r[..k], r)).collect();
         let leq = meta.lat_leq.unwrap();
         for r in rows {
            match wm.get(&r[..k]) {
               None =>
                  return vr("unsound-partial", meta.name, format!("{}: lattice {} has key of {} absent from the fixed point", ctx, meta.name, short(r))),
               Some(w) if !leq(&r[k], &w[k]) =>
                  return vr("unsound-partial", meta.name, format!("{}: lattice {} value {} is not below final {}", ctx, meta.name, short(r), short(w)),
                  ),
               _ => {},
            }
         }
      } else {
         let want: std::collections::BTreeSet<&Row> = want.iter().collect();
         if let Some(r) = rows.iter().find(|r| !want.contains(r)) {
            return vr("unsound-partial", meta.name, format!("{}: relation {} has underivable {}", ctx, meta.name, short(r)));
         }
      }
   }
   None
}

/// C05: relations are sets, inputs are never lost. Needs no reference.
fn multiplicity(def: &ProgramDef, rels: &[Vec<Row>], facts: &Facts, ctx: &str) -> Option<Violation> {
   for (meta, rows) in def.rels.iter().zip(rels) {
      if !meta.io {
         continue;
      }
      let pushed: Vec<Row> =
         facts.iter().filter(|(n, _)| n == meta.name).flat_map(|(_, rs)| rs.iter().cloned()).collect();
      if meta.lattice {
         let k = meta.arity - 1;
         let leq = meta.lat_leq.unwrap();
         let mut per_key: BTreeMap<&[vcorpus::Val], Vec<&Row>> = BTreeMap::new();
         for r in rows {
            per_key.entry(&r[..k]).or_default().push(r);
         }
         let mut in_keys: BTreeMap<&[vcorpus::Val], usize> = BTreeMap::new();
         for r in pushed.iter() {
            *in_keys.entry(&r[..k]).or_insert(0) += 1;
         }
         for (key, rs) in per_key.iter() {
            let allowed = in_keys.get(key).cloned().unwrap_or(1).max(1);
            if rs.len() > allowed {
               return vr("duplicate-key", meta.name, format!("{}: lattice {} holds {} rows for the key of {}", ctx, meta.name, rs.len(), short(rs[0])),
               );
            }
         }
         for r in pushed.iter() {
            match per_key.get(&r[..k]) {
               None => return vr("lost-input", meta.name, format!("{}: lattice {} lost input key of {}", ctx, meta.name, short(r))),
               Some(rs) =>
                  if !rs.iter().any(|o| leq(&r[k], &o[k])) {
                     return vr("lost-input", meta.name, format!("{}: lattice {} input {} is no longer below the stored value", ctx, meta.name, short(r)),
                     );
                  },
            }
         }
      } else {
         let inp = multiset(&pushed);
         let out = multiset(rows);
         for (t, n) in inp.iter() {
            let o = out.get(*t).cloned().unwrap_or(0);
            if o < *n {
               return vr("lost-input", meta.name, format!("{}: relation {} lost input tuple {} ({} of {} left)", ctx, meta.name, short(t), o, n));
            }
         }
         for (t, o) in out.iter() {
            let allowed = inp.get(*t).cloned().unwrap_or(1);
            if *o > allowed {
               return vr("duplicate-row", meta.name, format!("{}: relation {} holds {} copies of {} (input had {})", ctx, meta.name, o, short(t), inp.get(*t).cloned().unwrap_or(0)),
               );
            }
         }
      }
   }
   None
}

fn rows_pushed_between(actor: &Actor, from: usize, to: usize) -> Facts {
   actor.ops[from + 1..to]
      .iter()
      .filter_map(|op| if let Op::Push { rel, rows } = op { Some((rel.clone(), rows.clone())) } else { None })
      .collect()
}

/// C05 for a later evaluation of a program value: `before` = the rows the previous evaluation left,
/// `pushed` = what the caller appended since. The evaluation must keep every row it found, must not
/// add a copy of a tuple it found (however many copies the caller made of it), and may add any other
/// tuple once; a lattice key it found keeps its number of rows, a new key gets one row.
fn multiplicity_step(def: &ProgramDef, before: &[Vec<Row>], pushed: &Facts, after: &[Vec<Row>], ctx: &str) -> Option<Violation> {
   for ((meta, b), a) in def.rels.iter().zip(before).zip(after) {
      if !meta.io {
         continue;
      }
      let mut start: Vec<Row> = b.clone();
      start.extend(pushed.iter().filter(|(n, _)| n == meta.name).flat_map(|(_, rs)| rs.iter().cloned()));
      if meta.lattice {
         let k = meta.arity - 1;
         let leq = meta.lat_leq.unwrap();
         let mut was: BTreeMap<&[vcorpus::Val], Vec<&Row>> = BTreeMap::new();
         for r in start.iter() {
            was.entry(&r[..k]).or_default().push(r);
         }
         let mut is: BTreeMap<&[vcorpus::Val], Vec<&Row>> = BTreeMap::new();
         for r in a.iter() {
            is.entry(&r[..k]).or_default().push(r);
         }
         for (key, rs) in is.iter() {
            let allowed = was.get(key).map_or(1, |v| v.len());
            if rs.len() > allowed {
               return vr("duplicate-key", meta.name, format!("{}: lattice {} holds {} rows for the key of {} (it had {} before this evaluation)", ctx, meta.name, rs.len(), short(rs[0]), was.get(key).map_or(0, |v| v.len())));
            }
         }
         for (key, rs) in was.iter() {
            match is.get(key) {
               None => return vr("lost-input", meta.name, format!("{}: lattice {} lost the key of {}", ctx, meta.name, short(rs[0]))),
               Some(now) =>
                  for r in rs.iter() {
                     if !now.iter().any(|o| leq(&r[k], &o[k])) {
                        return vr("lost-input", meta.name, format!("{}: lattice {} row {} is no longer below the stored value", ctx, meta.name, short(r)));
                     }
                  },
            }
         }
      } else {
         let was = multiset(&start);
         let is = multiset(a);
         for (t, n) in was.iter() {
            let o = is.get(*t).cloned().unwrap_or(0);
            if o < *n {
               return vr("lost-input", meta.name, format!("{}: relation {} lost tuple {} ({} of {} left)", ctx, meta.name, short(t), o, n));
            }
         }
         for (t, o) in is.iter() {
            let allowed = was.get(*t).cloned().unwrap_or(1);
            if *o > allowed {
               return vr("duplicate-row", meta.name, format!("{}: relation {} holds {} copies of {} (it held {} before this evaluation)", ctx, meta.name, o, short(t), was.get(*t).cloned().unwrap_or(0)));
            }
         }
      }
   }
   None
}

fn same_as_sets(def: &ProgramDef, a: &[Vec<Row>], b: &[Vec<Row>], ctx: &str) -> Option<Violation> {
   let mut first = same_as_sets_first(def, a, b, ctx)?;
   first.rels = def
      .rels
      .iter()
      .enumerate()
      .filter(|(i, m)| {
         m.io && a[*i].iter().collect::<std::collections::BTreeSet<_>>() != b[*i].iter().collect::<std::collections::BTreeSet<_>>()
      })
      .map(|(_, m)| m.name.to_string())
      .collect();
   Some(first)
}

fn same_as_sets_first(def: &ProgramDef, a: &[Vec<Row>], b: &[Vec<Row>], ctx: &str) -> Option<Violation> {
   for (i, meta) in def.rels.iter().enumerate() {
      if !meta.io {
         continue;
      }
      let sa: std::collections::BTreeSet<&Row> = a[i].iter().collect();
      let sb: std::collections::BTreeSet<&Row> = b[i].iter().collect();
      if sa != sb {
         let d = sb.symmetric_difference(&sa).next().unwrap();
         return vr("not-idempotent", meta.name, format!("{}: {} {} changed by a run() without new facts (e.g. {})", ctx, if meta.lattice { "lattice" } else { "relation" }, meta.name, short(d)),
         );
      }
   }
   None
}

pub fn failure_violation(f: &Failure) -> Violation {
   match f {
      Failure::Panic { msg } => {
         // class carries the location only, so that shrinking keeps "the same panic"
         let loc = msg.rsplit(" @ ").next().unwrap_or("");
         Violation { class: format!("panic:{}", loc), detail: msg.clone(), rel: None, rels: vec![], actor: None, op: None }
      },
      Failure::Deadlock { msg } => Violation { class: "deadlock".into(), detail: msg.clone(), rel: None, rels: vec![], actor: None, op: None },
      Failure::StepLimit =>
         Violation { class: "no-termination".into(), detail: "step budget exhausted under a fair schedule".into(), rel: None, rels: vec![], actor: None, op: None },
   }
}

/// facts pushed by `actor` before op index `upto` (exclusive), restarting at the last `New`
fn facts_before(actor: &Actor, upto: usize) -> Facts {
   let mut facts: Facts = vec![];
   for op in actor.ops.iter().take(upto) {
      match op {
         Op::New { .. } => facts.clear(),
         Op::Push { rel, rows } => facts.push((rel.clone(), rows.clone())),
         _ => {},
      }
   }
   facts
}

fn pushed_between(actor: &Actor, from: usize, to: usize) -> bool {
   actor.ops[from + 1..to].iter().any(|op| matches!(op, Op::Push { rows, .. } if !rows.is_empty()) || matches!(op, Op::New { .. }))
}

fn actor_snaps<'a>(obs: &'a Observation, ai: usize) -> Vec<&'a Snap> { obs.snaps.iter().filter(|s| s.actor == ai).collect() }

pub fn judge(case: &Case, obs: &Observation) -> Option<Violation> {
   let mut v = judge_inner(case, obs)?;
   // "actor A op N: ..." -> structured position (used by the known-findings matcher)
   if let Some(rest) = v.detail.strip_prefix("actor ") {
      let mut it = rest.split(|c: char| !c.is_ascii_digit()).filter(|x| !x.is_empty());
      v.actor = it.next().and_then(|x| x.parse().ok());
      v.op = it.next().and_then(|x| x.parse().ok());
   }
   Some(v)
}

fn judge_inner(case: &Case, obs: &Observation) -> Option<Violation> {
   let check = case.check.as_str();
   if let Some(f) = &obs.failure {
      if check == "C05" {
         // a panic / deadlock is C02's statement, not C05's; recorded as inconclusive by the caller
         return None;
      }
      return Some(failure_violation(f));
   }
   if check == "C19" {
      return obs.inline.clone();
   }
   for (ai, actor) in case.actors.iter().enumerate() {
      let def = program(&actor.program);
      let snaps = actor_snaps(obs, ai);
      let mut prev: Option<&Snap> = None;
      let mut interrupted = false;
      for s in snaps.iter() {
         let facts = facts_before(actor, s.op);
         let ctx = format!("actor {} op {}", ai, s.op);
         let complete = s.ret != Some(false);
         match check {
            "C05" => {
               let r = match prev {
                  // a later evaluation of the same program value: judged against the state it started
                  // from (what the previous evaluation left, plus what the caller pushed since)
                  Some(p) if !actor.ops[p.op + 1..s.op].iter().any(|o| matches!(o, Op::New { .. })) =>
                     multiplicity_step(def, &p.rels, &rows_pushed_between(actor, p.op, s.op), &s.rels, &ctx),
                  _ => multiplicity(def, &s.rels, &facts, &ctx),
               };
               if let Some(x) = r {
                  return Some(x);
               }
            },
            "C02" | "C10" =>
               if let Some(x) = equal_to_reference(def, &s.rels, &reference(def, &facts), &ctx) {
                  return Some(x);
               },
            "C20" => {
               // "each computes exactly what it computes when run alone [in the default pool]"
               let solo = solo_snaps(case, ai);
               match solo.iter().find(|x| x.op == s.op) {
                  Some(alone) => {
                     if let Some(mut x) = same_as_sets(def, &alone.rels, &s.rels, &ctx) {
                        x.class = "differs-from-solo".into();
                        x.detail = x.detail.replace("changed by a run() without new facts", "differs from the same instance run alone in the default pool");
                        return Some(x);
                     }
                     // "exactly what it computes when run alone": also the same number of rows per tuple
                     // (alone, a tuple has one row beyond the copies the caller pushed; C05)
                     for ((meta, a), b) in def.rels.iter().zip(alone.rels.iter()).zip(s.rels.iter()) {
                        if meta.io && !meta.lattice && a.len() != b.len() {
                           let (ma, mb) = (multiset(a), multiset(b));
                           if let Some((t, n)) = mb.iter().find(|(t, n)| ma.get(**t) != Some(*n)) {
                              let mut x = Violation {
                                 class: "differs-from-solo".into(),
                                 detail: format!("{}: relation {} holds {} rows for {} but {} when the same instance runs alone in the default pool", ctx, meta.name, n, short(t), ma.get(*t).cloned().unwrap_or(0)),
                                 rel: Some(meta.name.to_string()),
                                 rels: vec![meta.name.to_string()],
                                 actor: None,
                                 op: None,
                              };
                              x.rels.dedup();
                              return Some(x);
                           }
                        }
                     }
                  },
                  None => {}, // the solo run itself failed: not a statement about isolation
               }
            },
            "C13" => {
               if let Some(p) = prev {
                  if !pushed_between(actor, p.op, s.op) {
                     if let Some(x) = same_as_sets(def, &p.rels, &s.rels, &ctx) {
                        return Some(x);
                     }
                  }
               }
               if def.positive {
                  if let Some(mut x) = equal_to_reference(def, &s.rels, &reference(def, &facts), &ctx) {
                     if prev.is_some() {
                        x.class = format!("rerun-{}", x.class);
                     }
                     return Some(x);
                  }
               }
            },
            "C14" => {
               let r = reference(def, &facts);
               if complete {
                  if let Some(mut x) = equal_to_reference(def, &s.rels, &r, &ctx) {
                     x.class = if interrupted { format!("resume-{}", x.class) } else { format!("complete-{}", x.class) };
                     return Some(x);
                  }
               } else {
                  interrupted = true;
                  if let Some(x) = subset_of_reference(def, &s.rels, &r, &ctx) {
                     return Some(x);
                  }
               }
            },
            other => panic!("no oracle for check {}", other),
         }
         prev = Some(s);
      }
   }
   None
}

thread_local! {
   static SOLO_CACHE: std::cell::RefCell<Option<(u64, usize, Vec<Snap>)>> = std::cell::RefCell::new(None);
}

/// the same actor (program, variant, history) run alone: no co-tenants, every construction and
/// run in the default (global) pool of 4 threads, default schedule
pub fn solo_snaps(case: &Case, ai: usize) -> Vec<Snap> {
   if let Some(hit) = SOLO_CACHE.with(|c| c.borrow().as_ref().filter(|(i, a, _)| *i == case.index && *a == ai).map(|x| x.2.clone())) {
      return hit;
   }
   let mut solo = case.clone();
   solo.pools = vec![];
   solo.knobs = crate::case::Knobs { shards_override: case.knobs.shards_override, ..Default::default() };
   solo.sched = crate::sched::SchedPlan::Gen { seed: 0, mode: crate::sched::GenMode::Default };
   let mut actor = case.actors[ai].clone();
   for op in actor.ops.iter_mut() {
      match op {
         Op::New { pool } | Op::Run { pool } | Op::RunTimeout { pool, .. } => *pool = crate::case::PoolRef::Global,
         _ => {},
      }
   }
   solo.actors = vec![actor];
   let obs = crate::exec::execute(&solo);
   let snaps: Vec<Snap> = if obs.failure.is_some() { vec![] } else { obs.snaps };
   SOLO_CACHE.with(|c| *c.borrow_mut() = Some((case.index, ai, snaps.clone())));
   snaps
}

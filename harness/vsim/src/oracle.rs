//! Oracles (DESIGN.md §2.4): evaluated over the recorded observation of one case.
//! They compare sets / multisets / key->value maps only; never row order, iteration counts or time.

use std::collections::BTreeMap;

use serde::{Deserialize, Serialize};
use vcorpus::prog::{ProgramDef, Variant};
use vcorpus::val::Row;

use crate::case::{Actor, Case, Op};
use crate::exec::{program, Failure, Observation, Snap};

#[derive(Clone, Debug, Serialize, Deserialize, PartialEq)]
pub struct Violation {
   pub class: String,
   pub detail: String,
}

fn v(class: &str, detail: String) -> Option<Violation> { Some(Violation { class: class.to_string(), detail }) }

pub type Facts = Vec<(String, Vec<Row>)>;

/// The reference model: the serial twin (of the reference program) run once, fresh, on `facts`.
pub fn reference(def: &ProgramDef, facts: &Facts) -> BTreeMap<String, Vec<Row>> {
   let rdef = match def.reference {
      Some(name) => program(name),
      None => def,
   };
   let mut inst = (rdef.make)(Variant::Ser);
   for (rel, rows) in facts {
      if let Some(ri) = rdef.rel_index(rel) {
         for r in rows {
            inst.push(ri, r);
         }
      }
   }
   inst.run();
   let snap = inst.snapshot();
   rdef.rels.iter().zip(snap).filter(|(m, _)| m.io).map(|(m, rows)| (m.name.to_string(), rows)).collect()
}

fn multiset(rows: &[Row]) -> BTreeMap<&Row, usize> {
   let mut m = BTreeMap::new();
   for r in rows {
      *m.entry(r).or_insert(0) += 1;
   }
   m
}

fn short(r: &Row) -> String { format!("{:?}", r) }

/// set equality of a relation (key -> value equality for a lattice) against the reference
fn equal_to_reference(
   def: &ProgramDef, rels: &[Vec<Row>], reference: &BTreeMap<String, Vec<Row>>, ctx: &str,
) -> Option<Violation> {
   for (meta, rows) in def.rels.iter().zip(rels) {
      if !meta.io {
         continue;
      }
      let Some(want) = reference.get(meta.name) else { continue };
      let got: std::collections::BTreeSet<&Row> = rows.iter().collect();
      let want: std::collections::BTreeSet<&Row> = want.iter().collect();
      if got == want {
         continue;
      }
      if meta.lattice {
         let k = meta.arity - 1;
         let gm: BTreeMap<&[vcorpus::Val], &Row> = got.iter().map(|r| (&r[..k], *r)).collect();
         let wm: BTreeMap<&[vcorpus::Val], &Row> = want.iter().map(|r| (&r[..k], *r)).collect();
         if gm.len() != got.len() {
            return v("duplicate-key", format!("{}: lattice {} holds several rows for one key", ctx, meta.name));
         }
         for (key, w) in wm.iter() {
            match gm.get(key) {
               None => return v("missing-tuple", format!("{}: lattice {} lacks key of {}", ctx, meta.name, short(w))),
               Some(g) if g != w =>
                  return v(
                     "lattice-value",
                     format!("{}: lattice {} has {} expected {}", ctx, meta.name, short(g), short(w)),
                  ),
               _ => {},
            }
         }
         let extra = gm.iter().find(|(k, _)| !wm.contains_key(*k)).unwrap();
         return v("extra-tuple", format!("{}: lattice {} has unexpected {}", ctx, meta.name, short(extra.1)));
      }
      if let Some(m) = want.difference(&got).next() {
         return v("missing-tuple", format!("{}: relation {} lacks {}", ctx, meta.name, short(m)));
      }
      let e = got.difference(&want).next().unwrap();
      return v("extra-tuple", format!("{}: relation {} has underivable {}", ctx, meta.name, short(e)));
   }
   None
}

/// every tuple present is in the reference; lattice values are below the reference's
fn subset_of_reference(
   def: &ProgramDef, rels: &[Vec<Row>], reference: &BTreeMap<String, Vec<Row>>, ctx: &str,
) -> Option<Violation> {
   for (meta, rows) in def.rels.iter().zip(rels) {
      if !meta.io {
         continue;
      }
      let Some(want) = reference.get(meta.name) else { continue };
      if meta.lattice {
         let k = meta.arity - 1;
         let wm: BTreeMap<&[vcorpus::Val], &Row> = want.iter().map(|r| (&r[..k], r)).collect();
         let leq = meta.lat_leq.unwrap();
         for r in rows {
            match wm.get(&r[..k]) {
               None =>
                  return v("unsound-partial", format!("{}: lattice {} has key of {} absent from the fixed point", ctx, meta.name, short(r))),
               Some(w) if !leq(&r[k], &w[k]) =>
                  return v(
                     "unsound-partial",
                     format!("{}: lattice {} value {} is not below final {}", ctx, meta.name, short(r), short(w)),
                  ),
               _ => {},
            }
         }
      } else {
         let want: std::collections::BTreeSet<&Row> = want.iter().collect();
         if let Some(r) = rows.iter().find(|r| !want.contains(r)) {
            return v("unsound-partial", format!("{}: relation {} has underivable {}", ctx, meta.name, short(r)));
         }
      }
   }
   None
}

/// C05: relations are sets, inputs are never lost. Needs no reference.
fn multiplicity(def: &ProgramDef, rels: &[Vec<Row>], facts: &Facts, ctx: &str) -> Option<Violation> {
   for (meta, rows) in def.rels.iter().zip(rels) {
      if !meta.io {
         continue;
      }
      let pushed: Vec<Row> =
         facts.iter().filter(|(n, _)| n == meta.name).flat_map(|(_, rs)| rs.iter().cloned()).collect();
      if meta.lattice {
         let k = meta.arity - 1;
         let leq = meta.lat_leq.unwrap();
         let mut per_key: BTreeMap<&[vcorpus::Val], Vec<&Row>> = BTreeMap::new();
         for r in rows {
            per_key.entry(&r[..k]).or_default().push(r);
         }
         let mut in_keys: BTreeMap<&[vcorpus::Val], usize> = BTreeMap::new();
         for r in pushed.iter() {
            *in_keys.entry(&r[..k]).or_insert(0) += 1;
         }
         for (key, rs) in per_key.iter() {
            let allowed = in_keys.get(key).cloned().unwrap_or(1).max(1);
            if rs.len() > allowed {
               return v(
                  "duplicate-key",
                  format!("{}: lattice {} holds {} rows for the key of {}", ctx, meta.name, rs.len(), short(rs[0])),
               );
            }
         }
         for r in pushed.iter() {
            match per_key.get(&r[..k]) {
               None => return v("lost-input", format!("{}: lattice {} lost input key of {}", ctx, meta.name, short(r))),
               Some(rs) =>
                  if !rs.iter().any(|o| leq(&r[k], &o[k])) {
                     return v(
                        "lost-input",
                        format!("{}: lattice {} input {} is no longer below the stored value", ctx, meta.name, short(r)),
                     );
                  },
            }
         }
      } else {
         let inp = multiset(&pushed);
         let out = multiset(rows);
         for (t, n) in inp.iter() {
            let o = out.get(*t).cloned().unwrap_or(0);
            if o < *n {
               return v("lost-input", format!("{}: relation {} lost input tuple {} ({} of {} left)", ctx, meta.name, short(t), o, n));
            }
         }
         for (t, o) in out.iter() {
            let allowed = inp.get(*t).cloned().unwrap_or(1);
            if *o > allowed {
               return v(
                  "duplicate-row",
                  format!("{}: relation {} holds {} copies of {} (input had {})", ctx, meta.name, o, short(t), inp.get(*t).cloned().unwrap_or(0)),
               );
            }
         }
      }
   }
   None
}

fn same_as_sets(def: &ProgramDef, a: &[Vec<Row>], b: &[Vec<Row>], ctx: &str) -> Option<Violation> {
   for (i, meta) in def.rels.iter().enumerate() {
      if !meta.io {
         continue;
      }
      let sa: std::collections::BTreeSet<&Row> = a[i].iter().collect();
      let sb: std::collections::BTreeSet<&Row> = b[i].iter().collect();
      if sa != sb {
         let d = sb.symmetric_difference(&sa).next().unwrap();
         return v(
            "not-idempotent",
            format!("{}: {} {} changed by a run() without new facts (e.g. {})", ctx, if meta.lattice { "lattice" } else { "relation" }, meta.name, short(d)),
         );
      }
   }
   None
}

pub fn failure_violation(f: &Failure) -> Violation {
   match f {
      Failure::Panic { msg } => {
         // class carries the location only, so that shrinking keeps "the same panic"
         let loc = msg.rsplit(" @ ").next().unwrap_or("");
         Violation { class: format!("panic:{}", loc), detail: msg.clone() }
      },
      Failure::Deadlock { msg } => Violation { class: "deadlock".into(), detail: msg.clone() },
      Failure::StepLimit =>
         Violation { class: "no-termination".into(), detail: "step budget exhausted under a fair schedule".into() },
   }
}

/// facts pushed by `actor` before op index `upto` (exclusive), restarting at the last `New`
fn facts_before(actor: &Actor, upto: usize) -> Facts {
   let mut facts: Facts = vec![];
   for op in actor.ops.iter().take(upto) {
      match op {
         Op::New { .. } => facts.clear(),
         Op::Push { rel, rows } => facts.push((rel.clone(), rows.clone())),
         _ => {},
      }
   }
   facts
}

fn pushed_between(actor: &Actor, from: usize, to: usize) -> bool {
   actor.ops[from + 1..to].iter().any(|op| matches!(op, Op::Push { rows, .. } if !rows.is_empty()) || matches!(op, Op::New { .. }))
}

fn actor_snaps<'a>(obs: &'a Observation, ai: usize) -> Vec<&'a Snap> { obs.snaps.iter().filter(|s| s.actor == ai).collect() }

pub fn judge(case: &Case, obs: &Observation) -> Option<Violation> {
   let check = case.check.as_str();
   if let Some(f) = &obs.failure {
      if check == "C05" {
         // a panic / deadlock is C02's statement, not C05's; recorded as inconclusive by the caller
         return None;
      }
      return Some(failure_violation(f));
   }
   for (ai, actor) in case.actors.iter().enumerate() {
      let def = program(&actor.program);
      let snaps = actor_snaps(obs, ai);
      let mut prev: Option<&Snap> = None;
      let mut interrupted = false;
      for s in snaps.iter() {
         let facts = facts_before(actor, s.op);
         let ctx = format!("actor {} op {}", ai, s.op);
         let complete = s.ret != Some(false);
         match check {
            "C05" =>
               if let Some(x) = multiplicity(def, &s.rels, &facts, &ctx) {
                  return Some(x);
               },
            "C02" | "C10" | "C20" =>
               if let Some(x) = equal_to_reference(def, &s.rels, &reference(def, &facts), &ctx) {
                  return Some(x);
               },
            "C13" => {
               if let Some(p) = prev {
                  if !pushed_between(actor, p.op, s.op) {
                     if let Some(x) = same_as_sets(def, &p.rels, &s.rels, &ctx) {
                        return Some(x);
                     }
                  }
               }
               if def.positive {
                  if let Some(mut x) = equal_to_reference(def, &s.rels, &reference(def, &facts), &ctx) {
                     if prev.is_some() {
                        x.class = format!("rerun-{}", x.class);
                     }
                     return Some(x);
                  }
               }
            },
            "C14" => {
               let r = reference(def, &facts);
               if complete {
                  if let Some(mut x) = equal_to_reference(def, &s.rels, &r, &ctx) {
                     x.class = if interrupted { format!("resume-{}", x.class) } else { format!("complete-{}", x.class) };
                     return Some(x);
                  }
               } else {
                  interrupted = true;
                  if let Some(x) = subset_of_reference(def, &s.rels, &r, &ctx) {
                     return Some(x);
                  }
               }
            },
            other => panic!("no oracle for check {}", other),
         }
         prev = Some(s);
      }
   }
   None
}

//! /verif/known_findings.json: committed, never written at run time (DESIGN.md §2.11).

use serde::{Deserialize, Serialize};

use crate::case::{Case, Op};
use crate::oracle::Violation;

#[derive(Clone, Debug, Serialize, Deserialize)]
pub struct Entry {
   pub property: String,
   /// "open" suppresses a matching violation (printed as KNOWN-FINDING); "fixed" suppresses nothing
   pub status: String,
   /// prefix of the violation class
   pub class: String,
   /// restricts the match to parallel / serial variants ("par", "ser", or "any")
   #[serde(default = "any")]
   pub mode: String,
   /// structural trigger the failing history must have (fixed vocabulary, see `trigger_holds`)
   pub trigger: String,
   pub what: String,
   /// call sites: program -> relations in which the finding shows; empty = not restricted
   #[serde(default)]
   pub sites: std::collections::BTreeMap<String, Vec<String>>,
   /// Engine B (Miri) findings: substrings, one of which must occur in the innermost /repo frame
   /// ("<function> at /repo/<file>") of the report
   #[serde(default)]
   pub frames: Vec<String>,
   #[serde(default)]
   pub commit: Option<String>,
}

fn any() -> String { "any".into() }

pub fn load() -> Vec<Entry> {
   let p = std::path::Path::new("/verif/known_findings.json");
   match std::fs::read_to_string(p) {
      Ok(s) => serde_json::from_str(&s).unwrap_or_else(|e| {
         eprintln!("harness error: cannot parse known_findings.json: {}", e);
         std::process::exit(2)
      }),
      Err(_) => vec![],
   }
}

/// number of evaluations (run / run_timeout) the violating actor had started when the violating
/// snapshot was taken, that snapshot's own call included
fn runs_up_to_failure(case: &Case, v: &Violation) -> usize {
   let is_run = |o: &Op| matches!(o, Op::Run { .. } | Op::RunTimeout { .. });
   match (v.actor, v.op) {
      (Some(a), Some(op)) if a < case.actors.len() => case.actors[a].ops.iter().take(op + 1).filter(|o| is_run(o)).count(),
      _ => case.actors.iter().map(|a| a.ops.iter().filter(|o| is_run(o)).count()).max().unwrap_or(0),
   }
}

fn trigger_holds(trigger: &str, case: &Case, v: &Violation) -> bool {
   match trigger {
      "any" => true,
      // the violating snapshot belongs to (at least) the second evaluation of that program value
      "second-run" => runs_up_to_failure(case, v) >= 2,
      _ => false,
   }
}

pub fn matching<'a>(entries: &'a [Entry], property: &str, case: &Case, v: &Violation) -> Option<&'a Entry> {
   entries.iter().find(|e| {
      e.status == "open"
         && e.property == property
         && v.class.starts_with(&e.class)
         && trigger_holds(&e.trigger, case, v)
         && (e.sites.is_empty()
            || case.actors.iter().any(|a| {
               e.sites.get(&a.program).map_or(false, |rels| !v.rels.is_empty() && v.rels.iter().all(|r| rels.contains(r)))
            }))
         && match e.mode.as_str() {
            "any" => true,
            "par" => case.actors.iter().any(|a| a.variant != "ser" && a.variant != "ser_to"),
            "ser" => case.actors.iter().all(|a| a.variant == "ser" || a.variant == "ser_to"),
            _ => false,
         }
   })
}

/// known-finding match for an Engine B (Miri) report
pub fn matching_miri<'a>(entries: &'a [Entry], property: &str, class: &str, repo_frame: &str) -> Option<&'a Entry> {
   entries.iter().find(|e| {
      e.status == "open"
         && e.property == property
         && e.trigger == "miri"
         && class.starts_with(&e.class)
         && !e.frames.is_empty()
         && e.frames.iter().any(|f| repo_frame.contains(f.as_str()))
   })
}

//! Executes one `Case` inside one shuttle execution on the simulated pool and records what
//! happened. Nothing here judges; see `oracle`.

use std::panic::{self, AssertUnwindSafe};
use std::sync::{Arc, Mutex, OnceLock};
use std::time::Duration;

use serde::{Deserialize, Serialize};
use vcorpus::prog::{Instance, ProgramDef, Variant};
use vcorpus::val::Row;

use crate::case::{Actor, Case, Op, PoolRef};
use crate::sched::{PlanScheduler, SchedRecord};

pub fn registry() -> &'static Vec<ProgramDef> {
   static REG: OnceLock<Vec<ProgramDef>> = OnceLock::new();
   REG.get_or_init(vcorpus::all_programs)
}

pub fn program(name: &str) -> &'static ProgramDef {
   registry().iter().find(|p| p.name == name).unwrap_or_else(|| panic!("unknown program {}", name))
}

#[derive(Clone, Debug)]
pub struct Snap {
   pub actor: usize,
   pub op: usize,
   /// return value of `run_timeout` (None for `run`)
   pub ret: Option<bool>,
   pub rels: Vec<Vec<Row>>,
}

#[derive(Clone, Debug, Serialize, Deserialize, PartialEq)]
#[serde(tag = "kind", rename_all = "snake_case")]
pub enum Failure {
   Panic { msg: String },
   Deadlock { msg: String },
   StepLimit,
}

#[derive(Clone, Debug)]
pub struct Observation {
   pub snaps: Vec<Snap>,
   pub failure: Option<Failure>,
   pub sched: SchedRecord,
   pub counters: verif_rt::Counters,
   pub pool_stats: [u64; rayon_core::sim::N_STATS],
   /// violation found by an oracle that is evaluated inside the execution (C19)
   pub inline: Option<crate::oracle::Violation>,
}

static PANICS: Mutex<Vec<String>> = Mutex::new(Vec::new());

/// Replaces the process panic hook by a recorder (quiet unless VSIM_VERBOSE is set). Must be
/// called after the first shuttle execution of the process (shuttle installs its own hook once).
pub fn install_panic_recorder() {
   let verbose = std::env::var_os("VSIM_VERBOSE").is_some();
   panic::set_hook(Box::new(move |info| {
      let msg = if let Some(s) = info.payload().downcast_ref::<&str>() {
         s.to_string()
      } else if let Some(s) = info.payload().downcast_ref::<String>() {
         s.clone()
      } else {
         "<non-string panic payload>".to_string()
      };
      let loc = info.location().map(|l| format!("{}:{}", l.file(), l.line())).unwrap_or_default();
      // panics of simulated code are recorded quietly; a panic while no simulated execution is
      // running is the harness' own (or the serial reference's) and must be visible in the worker log
      if verbose || !verif_rt::active() {
         eprintln!("[panic] {} @ {}", msg, loc);
      }
      PANICS.lock().unwrap().push(format!("{} @ {}", msg, loc));
   }));
}

struct AssertSend<T>(T);
unsafe impl<T> Send for AssertSend<T> {}
unsafe impl<T> Sync for AssertSend<T> {}

fn in_pool<R>(pools: &[rayon_core::ThreadPool], p: &PoolRef, f: impl FnOnce() -> R) -> R {
   let f = AssertSend(f);
   match p {
      PoolRef::Global => (f.0)(),
      PoolRef::Pool(i) => {
         pools[*i]
            .install(move || {
               let f = f;
               AssertSend((f.0)())
            })
            .0
      },
      PoolRef::Nested(i, j) => {
         let inner = AssertSend(&pools[*j]);
         pools[*i]
            .install(move || {
               let f = f;
               let inner = inner;
               inner.0.install(move || {
                  let f = f;
                  AssertSend((f.0)())
               })
            })
            .0
      },
   }
}

fn run_actor(ai: usize, actor: &Actor, pools: &[rayon_core::ThreadPool], snaps: &Mutex<Vec<Snap>>) {
   let def = program(&actor.program);
   let variant = Variant::parse(&actor.variant).expect("bad variant");
   let mut inst: Option<Box<dyn Instance>> = None;
   for (oi, op) in actor.ops.iter().enumerate() {
      match op {
         Op::New { pool } => {
            inst = Some(in_pool(pools, pool, || (def.make)(variant)));
         },
         Op::Push { rel, rows } => {
            let ri = def.rel_index(rel).unwrap_or_else(|| panic!("harness: no relation {}", rel));
            let inst = inst.as_mut().expect("harness: Push before New");
            for r in rows {
               inst.push(ri, r);
            }
         },
         Op::Run { pool } => {
            let inst = inst.as_mut().expect("harness: Run before New");
            in_pool(pools, pool, || inst.run());
            // snapshot first: reading lattice rows takes (simulated) row locks, i.e. may deschedule this
            // task, which must not happen while the harness' std mutex is held
            let rels = inst.snapshot();
            snaps.lock().unwrap().push(Snap { actor: ai, op: oi, ret: None, rels });
         },
         Op::RunTimeout { pool, timeout_ns, tick_ns, jumps } => {
            let inst = inst.as_mut().expect("harness: RunTimeout before New");
            verif_rt::clock::set_plan(verif_rt::clock::ClockPlan { tick_ns: *tick_ns, jumps: jumps.clone() });
            let d = if *timeout_ns == u64::MAX { Duration::MAX } else { Duration::from_nanos(*timeout_ns) };
            let ret = in_pool(pools, pool, || inst.run_timeout(d));
            let ret = ret.expect("harness: variant has no run_timeout");
            let rels = inst.snapshot();
            snaps.lock().unwrap().push(Snap { actor: ai, op: oi, ret: Some(ret), rels });
         },
      }
   }
}

fn run_case(case: &Case, snaps: &Arc<Mutex<Vec<Snap>>>, inline: &Arc<Mutex<Option<crate::oracle::Violation>>>) {
   rayon_core::sim::begin_execution(rayon_core::sim::SimConfig {
      global_threads: case.knobs.global_threads,
      steal_permille: case.knobs.steal_permille,
   });
   verif_rt::clock::reset();
   verif_rt::begin(&verif_rt::RunConfig {
      site_mask: case.knobs.site_mask as usize,
      shards_override: case.knobs.shards_override,
      len_noise: case.knobs.len_noise,
      empty_mask: case.knobs.empty_mask,
      noise_seed: case.knobs.noise_seed,
   });
   if let Some(sc) = &case.index_scenario {
      if let Err(v) = crate::c19::run_scenario(sc) {
         *inline.lock().unwrap() = Some(v);
      }
      return;
   }
   let pools: Arc<Vec<rayon_core::ThreadPool>> = Arc::new(
      case.pools.iter().map(|n| rayon_core::ThreadPoolBuilder::new().num_threads(*n).build().unwrap()).collect(),
   );
   let mut handles = vec![];
   for ai in 1..case.actors.len() {
      let actor = case.actors[ai].clone();
      let pools = pools.clone();
      let snaps = snaps.clone();
      handles.push(shuttle::thread::spawn(move || run_actor(ai, &actor, &pools, &snaps)));
   }
   if let Some(a0) = case.actors.first() {
      run_actor(0, a0, &pools, snaps);
   }
   for h in handles {
      h.join().unwrap();
   }
}

/// Pins the process-wide `shards_count()` Lazy: its first evaluation in this process happens with
/// a global simulated pool of `first_pool` threads, as it would in a process whose first parallel
/// program was constructed under such a pool.
pub fn pin_process(first_pool: usize) -> usize {
   let res = Arc::new(Mutex::new(0usize));
   let res2 = res.clone();
   let out = Arc::new(Mutex::new(SchedRecord::default()));
   let sched = PlanScheduler::new(&crate::sched::SchedPlan::Explicit { deviations: vec![], draws: vec![] }, out);
   let mut cfg = shuttle::Config::new();
   cfg.failure_persistence = shuttle::FailurePersistence::None;
   shuttle::Runner::new(sched, cfg).run(move || {
      rayon_core::sim::begin_execution(rayon_core::sim::SimConfig { global_threads: first_pool, steal_permille: 0 });
      *res2.lock().unwrap() = ascent::internal::shards_count();
   });
   install_panic_recorder();
   let n = *res.lock().unwrap();
   n
}

pub fn execute(case: &Case) -> Observation {
   let out = Arc::new(Mutex::new(SchedRecord::default()));
   let snaps = Arc::new(Mutex::new(Vec::new()));
   let sched = PlanScheduler::new(&case.sched, out.clone());
   let mut cfg = shuttle::Config::new();
   cfg.stack_size = 1 << 20;
   cfg.failure_persistence = shuttle::FailurePersistence::None;
   cfg.max_steps = shuttle::MaxSteps::FailAfter(case.max_steps as usize);
   cfg.silence_warnings = true;
   PANICS.lock().unwrap().clear();
   let case2 = Arc::new(case.clone());
   let snaps2 = snaps.clone();
   let inline = Arc::new(Mutex::new(None));
   let inline2 = inline.clone();
   let res = panic::catch_unwind(AssertUnwindSafe(|| {
      shuttle::Runner::new(sched, cfg).run(move || run_case(&case2, &snaps2, &inline2));
   }));
   let counters = verif_rt::end();
   let pool_stats = rayon_core::sim::take_stats();
   let failure = match res {
      Ok(()) => None,
      Err(payload) => {
         let top = if let Some(s) = payload.downcast_ref::<&str>() {
            s.to_string()
         } else if let Some(s) = payload.downcast_ref::<String>() {
            s.clone()
         } else {
            String::new()
         };
         let first = PANICS.lock().unwrap().first().cloned().unwrap_or_else(|| top.clone());
         if top.starts_with("deadlock!") || first.starts_with("deadlock!") {
            Some(Failure::Deadlock { msg: first })
         } else if top.contains("exceeded max_steps") || first.contains("exceeded max_steps") {
            Some(Failure::StepLimit)
         } else {
            Some(Failure::Panic { msg: first })
         }
      },
   };
   let sched = out.lock().unwrap().clone();
   let snaps = std::mem::take(&mut *snaps.lock().unwrap());
   let inline = inline.lock().unwrap().take();
   Observation { snaps, failure, sched, counters, pool_stats, inline }
}

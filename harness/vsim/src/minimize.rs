//! Delta debugging of a failing case (DESIGN.md §2.6). A candidate is accepted while the same
//! violation class persists; every candidate runs in a fresh subprocess.

use std::path::{Path, PathBuf};
use std::process::Command;
use std::time::{Duration, Instant};

use crate::case::{Case, Op};
use crate::sched::SchedPlan;

#[derive(Clone, Debug, PartialEq)]
pub struct ReplayResult {
   pub class: Option<String>,
   pub detail: String,
   pub hash: u64,
}

/// runs `vsim replay --json <file>` in a fresh process
pub fn replay_subprocess(file: &Path) -> Result<ReplayResult, String> {
   let exe = std::env::current_exe().map_err(|e| e.to_string())?;
   let out = Command::new(exe)
      .arg("replay")
      .arg("--json")
      .arg(file)
      .env_remove("VSIM_VERBOSE")
      .output()
      .map_err(|e| e.to_string())?;
   let stdout = String::from_utf8_lossy(&out.stdout);
   for line in stdout.lines() {
      if let Some(rest) = line.strip_prefix("REPLAY-JSON ") {
         let j: serde_json::Value = serde_json::from_str(rest).map_err(|e| e.to_string())?;
         return Ok(ReplayResult {
            class: j.get("class").and_then(|c| c.as_str()).map(|s| s.to_string()),
            detail: j.get("detail").and_then(|c| c.as_str()).unwrap_or("").to_string(),
            hash: j.get("hash").and_then(|h| h.as_u64()).unwrap_or(0),
         });
      }
   }
   Err(format!(
      "replay subprocess produced no result (status {:?}); stderr: {}",
      out.status.code(),
      String::from_utf8_lossy(&out.stderr).lines().rev().take(5).collect::<Vec<_>>().join(" | ")
   ))
}

pub struct Minimizer {
   pub dir: PathBuf,
   pub class: String,
   pub budget: usize,
   pub deadline: Instant,
   pub tried: usize,
   pub accepted: usize,
}

impl Minimizer {
   pub fn new(dir: &Path, class: &str, budget: usize, secs: u64) -> Self {
      Minimizer {
         dir: dir.to_path_buf(),
         class: class.to_string(),
         budget,
         deadline: Instant::now() + Duration::from_secs(secs),
         tried: 0,
         accepted: 0,
      }
   }

   fn exhausted(&self) -> bool { self.tried >= self.budget || Instant::now() > self.deadline }

   pub fn still_fails(&mut self, c: &Case) -> bool {
      if self.exhausted() {
         return false;
      }
      self.tried += 1;
      let f = self.dir.join(format!("cand_{}.json", self.tried % 4));
      if std::fs::write(&f, serde_json::to_string(c).unwrap()).is_err() {
         return false;
      }
      match replay_subprocess(&f) {
         Ok(r) => {
            let ok = r.class.as_deref() == Some(self.class.as_str());
            if ok {
               self.accepted += 1;
            }
            ok
         },
         Err(_) => false,
      }
   }

   /// generic ddmin over a list-valued component
   fn shrink_list<T: Clone>(
      &mut self, case: &mut Case, get: &dyn Fn(&Case) -> Vec<T>, set: &dyn Fn(&mut Case, Vec<T>),
   ) {
      let mut items = get(case);
      let mut n = 2usize;
      while items.len() >= 1 && !self.exhausted() {
         let chunk = (items.len() + n - 1) / n;
         let mut reduced = false;
         let mut start = 0;
         while start < items.len() {
            let end = (start + chunk).min(items.len());
            let mut cand_items = items[..start].to_vec();
            cand_items.extend_from_slice(&items[end..]);
            let mut cand = case.clone();
            set(&mut cand, cand_items.clone());
            if self.still_fails(&cand) {
               items = cand_items;
               *case = cand;
               reduced = true;
               n = n.saturating_sub(1).max(2);
               break;
            }
            start = end;
         }
         if !reduced {
            if chunk <= 1 {
               break;
            }
            n = (n * 2).min(items.len().max(2));
         }
      }
   }

   pub fn minimize(&mut self, mut case: Case) -> Case {
      // 1. history: drop trailing actors, then operations (never the `New`s)
      while case.actors.len() > 1 && !self.exhausted() {
         let mut cand = case.clone();
         cand.actors.pop();
         if self.still_fails(&cand) {
            case = cand;
         } else {
            break;
         }
      }
      for ai in 0..case.actors.len() {
         self.shrink_list(
            &mut case,
            &|c: &Case| c.actors[ai].ops.iter().cloned().enumerate().filter(|(_, o)| !matches!(o, Op::New { .. })).collect::<Vec<_>>(),
            &|c: &mut Case, keep: Vec<(usize, Op)>| {
               let keep_idx: std::collections::BTreeSet<usize> = keep.iter().map(|(i, _)| *i).collect();
               let ops = std::mem::take(&mut c.actors[ai].ops);
               c.actors[ai].ops = ops
                  .into_iter()
                  .enumerate()
                  .filter(|(i, o)| matches!(o, Op::New { .. }) || keep_idx.contains(i))
                  .map(|(_, o)| o)
                  .collect();
            },
         );
      }
      // 2. input facts, per push
      for ai in 0..case.actors.len() {
         for oi in 0..case.actors[ai].ops.len() {
            if matches!(case.actors[ai].ops[oi], Op::Push { .. }) {
               self.shrink_list(
                  &mut case,
                  &|c: &Case| match &c.actors[ai].ops[oi] {
                     Op::Push { rows, .. } => rows.clone(),
                     _ => vec![],
                  },
                  &|c: &mut Case, rows| {
                     if let Op::Push { rows: r, .. } = &mut c.actors[ai].ops[oi] {
                        *r = rows;
                     }
                  },
               );
            }
         }
      }
      // 3. knobs towards the plain configuration
      let simpler: Vec<Box<dyn Fn(&mut Case)>> = vec![
         Box::new(|c| c.knobs.len_noise = false),
         Box::new(|c| c.knobs.empty_mask = false),
         Box::new(|c| c.knobs.shards_override = None),
         Box::new(|c| c.knobs.site_mask = u64::MAX),
         Box::new(|c| c.knobs.global_threads = 2),
         Box::new(|c| c.knobs.global_threads = 1),
         Box::new(|c| c.knobs.steal_permille = 500),
      ];
      for f in simpler {
         let mut cand = case.clone();
         f(&mut cand);
         if cand != case && self.still_fails(&cand) {
            case = cand;
         }
      }
      // 4. schedule deviations, then PRNG draws (towards 0 = "not stolen"), then clock events
      self.shrink_list(
         &mut case,
         &|c: &Case| match &c.sched {
            SchedPlan::Explicit { deviations, .. } => deviations.clone(),
            _ => vec![],
         },
         &|c: &mut Case, d| {
            if let SchedPlan::Explicit { deviations, .. } = &mut c.sched {
               *deviations = d;
            }
         },
      );
      if let SchedPlan::Explicit { draws, .. } = &case.sched {
         let n = draws.len();
         // zero out chunks of draws
         let mut chunk = n.max(1);
         while chunk >= 1 && !self.exhausted() {
            let mut i = 0;
            while i < n {
               let mut cand = case.clone();
               let mut changed = false;
               if let SchedPlan::Explicit { draws, .. } = &mut cand.sched {
                  for d in draws.iter_mut().skip(i).take(chunk) {
                     if *d != 0 {
                        *d = 0;
                        changed = true;
                     }
                  }
               }
               if changed && self.still_fails(&cand) {
                  case = cand;
               }
               i += chunk;
            }
            if chunk == 1 {
               break;
            }
            chunk /= 2;
         }
         // drop trailing zero draws (absent draws read as 0)
         if let SchedPlan::Explicit { draws, .. } = &mut case.sched {
            while draws.last() == Some(&0) {
               draws.pop();
            }
         }
      }
      for ai in 0..case.actors.len() {
         for oi in 0..case.actors[ai].ops.len() {
            if let Op::RunTimeout { jumps, .. } = &case.actors[ai].ops[oi] {
               if jumps.len() > 1 {
                  self.shrink_list(
                     &mut case,
                     &|c: &Case| match &c.actors[ai].ops[oi] {
                        Op::RunTimeout { jumps, .. } => jumps.clone(),
                        _ => vec![],
                     },
                     &|c: &mut Case, j| {
                        if let Op::RunTimeout { jumps, .. } = &mut c.actors[ai].ops[oi] {
                           *jumps = j;
                        }
                     },
                  );
               }
            }
         }
      }
      case
   }
}

//! A worker process: executes a contiguous range of case indices (one chunk = one process-level
//! configuration) and writes one summary file.

use std::collections::BTreeMap;

use serde::{Deserialize, Serialize};

use crate::case::Case;
use crate::exec::{execute, pin_process, Failure, Observation};
use crate::oracle::{judge, Violation};
use crate::sched::SchedPlan;

#[derive(Clone, Debug, Default, Serialize, Deserialize)]
pub struct Summary {
   pub check: String,
   pub from: u64,
   pub to: u64,
   pub shards_lazy: usize,
   pub evaluations: u64,
   /// trace hashes of executions that were non-trivial (>= 1 preemption between distinct tasks)
   pub nontrivial_hashes: Vec<u64>,
   /// (index, trace hash, result digest) of every execution: for the determinism self-check
   pub digests: Vec<(u64, u64, u64)>,
   pub steps: u64,
   pub max_steps_seen: u64,
   pub switches: u64,
   pub preemptions: u64,
   pub deviations: u64,
   pub draws: u64,
   pub tasks: u64,
   pub sites: BTreeMap<String, u64>,
   pub probes: BTreeMap<String, u64>,
   pub pool: BTreeMap<String, u64>,
   pub faults: BTreeMap<String, u64>,
   pub labels: BTreeMap<String, u64>,
   pub clock_readings: u64,
   pub clock_ns: u64,
   pub inconclusive: u64,
   pub extra: BTreeMap<String, u64>,
   pub samples: Vec<serde_json::Value>,
   pub violations: Vec<Found>,
   pub wall_s: f64,
}

#[derive(Clone, Debug, Serialize, Deserialize)]
pub struct Found {
   pub case: Case,
   pub violation: Violation,
   pub trace_hash: u64,
}

fn bump(m: &mut BTreeMap<String, u64>, k: &str, n: u64) {
   if n > 0 {
      *m.entry(k.to_string()).or_insert(0) += n;
   }
}

pub fn result_digest(obs: &Observation) -> u64 {
   let mut h = 0xcbf29ce484222325u64;
   let mut feed = |s: &str| {
      for b in s.bytes() {
         h ^= b as u64;
         h = h.wrapping_mul(0x100000001b3);
      }
   };
   for s in obs.snaps.iter() {
      feed(&format!("{}:{}:{:?}", s.actor, s.op, s.ret));
      for rel in s.rels.iter() {
         let mut rows: Vec<String> = rel.iter().map(|r| format!("{:?}", r)).collect();
         rows.sort();
         for r in rows {
            feed(&r);
         }
         feed("|");
      }
   }
   if let Some(f) = &obs.failure {
      feed(&format!("{:?}", f));
   }
   h
}

/// Explicit (literal) version of a case after it was executed: replay does not depend on generators.
pub fn explicit_case(case: &Case, obs: &Observation) -> Case {
   let mut c = case.clone();
   c.sched = SchedPlan::Explicit { deviations: obs.sched.deviations.clone(), draws: obs.sched.draws.clone() };
   c
}

pub fn account(sum: &mut Summary, case: &Case, obs: &Observation) {
   sum.evaluations += 1;
   let s = &obs.sched;
   sum.steps += s.steps;
   sum.max_steps_seen = sum.max_steps_seen.max(s.steps);
   sum.switches += s.switches;
   sum.preemptions += s.preemptions;
   sum.deviations += s.deviations.len() as u64;
   sum.draws += s.draws.len() as u64;
   sum.tasks += s.max_task as u64 + 1;
   if case.check == "C14" {
      // fault enumeration: non-trivial = the deadline really struck (or tasks really interleaved);
      // distinct = distinct (schedule trace, program, input, clock plan)
      let struck = obs.snaps.iter().any(|x| x.ret == Some(false));
      if struck || (s.preemptions >= 1 && s.max_task >= 1) {
         let ops = serde_json::to_string(&case.actors).unwrap();
         let h = ops.bytes().fold(s.hash, |h, b| (h ^ b as u64).wrapping_mul(0x100000001b3));
         sum.nontrivial_hashes.push(h);
      }
   } else if s.preemptions >= 1 && s.max_task >= 1 {
      sum.nontrivial_hashes.push(s.hash);
   }
   if std::env::var_os("VSIM_DIGESTS").is_some() {
      sum.digests.push((case.index, s.hash, result_digest(obs)));
   }
   for (i, n) in obs.counters.sites.iter().enumerate() {
      bump(&mut sum.sites, verif_rt::SITE_NAMES[i], *n);
   }
   for (i, n) in obs.counters.probes.iter().enumerate() {
      bump(&mut sum.probes, verif_rt::PROBE_NAMES[i], *n);
   }
   for (i, n) in obs.pool_stats.iter().enumerate() {
      bump(&mut sum.pool, rayon_core::sim::STAT_NAMES[i], *n);
   }
   sum.clock_readings += obs.counters.clock_readings;
   sum.clock_ns = sum.clock_ns.saturating_add(obs.counters.clock_now_ns);
   // fault kinds that actually fired (DESIGN.md §2.3)
   bump(&mut sum.faults, "preempt", s.preemptions);
   bump(&mut sum.faults, "steal", obs.pool_stats[rayon_core::sim::Stat::Stolen as usize]);
   bump(&mut sum.faults, "no_steal", obs.pool_stats[rayon_core::sim::Stat::NotStolen as usize]);
   bump(&mut sum.faults, "pool_wait", obs.pool_stats[rayon_core::sim::Stat::PoolWait as usize]);
   bump(&mut sum.faults, "lock_contended", obs.counters.sites[verif_rt::Site::DashContended as usize]);
   bump(&mut sum.faults, "plan_flip_len_noise", obs.counters.probes[verif_rt::Probe::LenNoise as usize]);
   bump(&mut sum.faults, "plan_flip_empty_mask", obs.counters.probes[verif_rt::Probe::EmptyMasked as usize]);
   bump(&mut sum.faults, "shard_override", (case.knobs.shards_override.is_some()) as u64);
   bump(&mut sum.faults, "deadline_strike", obs.snaps.iter().filter(|s| s.ret == Some(false)).count() as u64);
   bump(&mut sum.faults, "co_tenant", (case.actors.len() > 1) as u64);
   bump(&mut sum.faults, "pool_switch", (!case.pools.is_empty()) as u64);
   bump(&mut sum.labels, &case.label, 1);
}

pub fn sample_json(case: &Case, obs: &Observation) -> serde_json::Value {
   let mut c = serde_json::to_value(case).unwrap();
   // keep samples readable: first rows only
   if let Some(actors) = c.get_mut("actors").and_then(|a| a.as_array_mut()) {
      for a in actors {
         if let Some(ops) = a.get_mut("ops").and_then(|o| o.as_array_mut()) {
            for op in ops {
               if let Some(rows) = op.get_mut("rows").and_then(|r| r.as_array_mut()) {
                  rows.truncate(12);
               }
            }
         }
      }
   }
   serde_json::json!({
      "case": c,
      "steps": obs.sched.steps,
      "tasks": obs.sched.max_task + 1,
      "preemptions": obs.sched.preemptions,
      "trace_hash": obs.sched.hash,
      "first_schedule_events(step,task,runnable)": obs.sched.head,
      "result_rows": obs.snaps.last().map(|s| s.rels.iter().map(|r| r.len()).collect::<Vec<_>>()),
   })
}

/// Wall-clock watchdog: an execution that spins without ever reaching a scheduling point (e.g. a
/// cyclic pointer structure walked forever) cannot be stopped by the step budget. If one execution
/// takes longer than `HANG_LIMIT_S` the process writes the case to `<out>.hang.json` and exits 3.
pub const HANG_LIMIT_S: u64 = 90;
pub static REPLAY_FILE: std::sync::Mutex<String> = std::sync::Mutex::new(String::new());
static CURRENT: std::sync::Mutex<Option<(std::time::Instant, String)>> = std::sync::Mutex::new(None);

pub fn start_watchdog(hang_file: Option<std::path::PathBuf>) {
   std::thread::spawn(move || loop {
      std::thread::sleep(std::time::Duration::from_millis(500));
      let cur = CURRENT.lock().unwrap().clone();
      if let Some((t0, case_json)) = cur {
         if t0.elapsed().as_secs() >= HANG_LIMIT_S {
            // spinning (CPU time keeps growing) or asleep? A process that is *blocked* got stuck on a
            // real (std / OS) lock that a descheduled simulated task holds: the simulator cannot model
            // such a lock, so this is reported as a limitation of the harness (exit 2), not as a
            // verdict about the code.
            let cpu0 = process_cpu_ticks();
            std::thread::sleep(std::time::Duration::from_secs(5));
            let cpu1 = process_cpu_ticks();
            if cpu1.saturating_sub(cpu0) < 100 {
               eprintln!("harness limitation: execution blocked on an unmodelled OS-level lock held across a scheduling point");
               println!("REPLAY-JSON {}", serde_json::json!({"class": "blocked-on-unmodelled-lock", "detail": "the simulated process is asleep on a std/OS lock that a descheduled simulated task holds", "hash": 0}));
               if let Some(f) = &hang_file {
                  let _ = std::fs::write(f.with_extension("blocked.json"), &case_json);
               }
               std::process::exit(4);
            }
            match &hang_file {
               Some(f) => {
                  let _ = std::fs::write(f, case_json);
                  std::process::exit(3);
               },
               None => {
                  println!("violation: no-termination: the execution made no progress for {} s of wall clock (no scheduling point reached)", HANG_LIMIT_S);
                  println!("REPLAY-JSON {}", serde_json::json!({"class": "no-termination", "detail": "wall-clock watchdog: execution spins without reaching a scheduling point", "hash": 0}));
                  let prop = serde_json::from_str::<serde_json::Value>(&case_json).ok().and_then(|j| j.get("check").and_then(|c| c.as_str()).map(|s| s.to_string())).unwrap_or_default();
                  println!("VIOLATION property={} replay={}", prop, REPLAY_FILE.lock().unwrap().clone());
                  std::process::exit(1);
               },
            }
         }
      }
   });
}

/// user + system CPU time of this process in clock ticks (Linux /proc/self/stat fields 14, 15)
fn process_cpu_ticks() -> u64 {
   let stat = std::fs::read_to_string("/proc/self/stat").unwrap_or_default();
   // the command name (field 2) is parenthesised and may contain spaces
   let rest = stat.rsplit(')').next().unwrap_or("");
   let f: Vec<&str> = rest.split_whitespace().collect();
   let utime: u64 = f.get(11).and_then(|x| x.parse().ok()).unwrap_or(0);
   let stime: u64 = f.get(12).and_then(|x| x.parse().ok()).unwrap_or(0);
   utime + stime
}

pub fn watch(case: &Case) { *CURRENT.lock().unwrap() = Some((std::time::Instant::now(), serde_json::to_string(case).unwrap())); }
pub fn unwatch() { *CURRENT.lock().unwrap() = None; }

pub fn run_range(check: &str, thorough: bool, seed: u64, from: u64, to: u64, gen: &dyn Fn(&str, bool, u64, u64) -> Option<Case>) -> Summary {
   let t0 = std::time::Instant::now();
   let mut sum = Summary { check: check.to_string(), from, to, ..Default::default() };
   if from >= to {
      return sum;
   }
   let first_pool = crate::gen::proc_first_pool(seed, check, from);
   sum.shards_lazy = pin_process(first_pool);
   for index in from..to {
      let Some(case) = gen(check, thorough, seed, index) else { continue };
      assert_eq!(case.proc_first_pool, first_pool, "a chunk must not span process configurations");
      watch(&case);
      let obs = execute(&case);
      unwatch();
      account(&mut sum, &case, &obs);
      if sum.samples.len() < 2 && obs.sched.preemptions > 0 {
         sum.samples.push(sample_json(&case, &obs));
      }
      if obs.failure.is_some() && check == "C05" {
         sum.inconclusive += 1;
      }
      if let Some(violation) = judge(&case, &obs) {
         if sum.violations.len() < 5 {
            sum.violations.push(Found { case: explicit_case(&case, &obs), violation, trace_hash: obs.sched.hash });
         }
      }
      let _: Option<Failure> = None;
   }
   if check == "C14" {
      crate::gen14::GROUP_STATS.with(|g| {
         let g = g.borrow();
         bump(&mut sum.extra, "groups(program,input,schedule)", g.groups);
         bump(&mut sum.extra, "groups_with_every_deadline_check_enumerated", g.exhaustive_groups);
         bump(&mut sum.extra, "groups_truncated_at_ENUM_checks", g.truncated_groups);
         bump(&mut sum.extra, "deadline_checks_enumerated", g.readings_enumerated);
      });
   }
   sum.wall_s = t0.elapsed().as_secs_f64();
   sum
}

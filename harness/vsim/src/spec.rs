//! Per-check constants: budgets, evidence texts.

pub struct Spec {
   pub id: &'static str,
   pub level: &'static str,
   pub quick_cases: u64,
   pub thorough_cases: u64,
   pub rule: &'static str,
   pub assumptions: Vec<&'static str>,
   /// fault kinds / probes that a healthy batch must have exercised at least once
   pub expected_probes: Vec<&'static str>,
}

const COMMON_RULE: &str = "One case = (program, variant, input facts, history of operations, pool plan, knob values, schedule plan) derived from mix(VERIF_SEED, check, index); it is executed once inside one shuttle execution on the simulated rayon pool. A case counts as non-trivial when at least one runnable task was preempted in favour of another task (so two tasks really interleaved); distinct = distinct trace hashes (hash over every scheduling decision and every PRNG draw handed to the simulated code) among the non-trivial ones.";

fn common_assumptions() -> Vec<&'static str> {
   vec![
      "Engine A is sequentially consistent: relaxed atomics, real shard-lock contention and boxcar's lock-free push are atomic steps between yield points",
      "rayon-core is a model (spawn-per-steal pool, DESIGN.md 2.1); rayon's iterator layer, dashmap, hashbrown, boxcar and all of ascent are the real code",
      "the serial evaluator (ascent!) is the trusted reference where a reference is used",
      "a clean batch is evidence, not proof: schedules, inputs and programs are sampled",
   ]
}

pub fn spec(id: &str) -> Option<Spec> {
   let s = match id {
      "C02" => Spec {
         id: "C02",
         level: "exploration",
         quick_cases: 12_000,
         thorough_cases: 400_000,
         rule: COMMON_RULE,
         assumptions: common_assumptions(),
         expected_probes: vec!["preempt", "steal", "plan_flip_len_noise", "plan_flip_empty_mask", "shard_override"],
      },
      "C05" => Spec {
         id: "C05",
         level: "exploration",
         quick_cases: 12_000,
         thorough_cases: 400_000,
         rule: COMMON_RULE,
         assumptions: common_assumptions(),
         expected_probes: vec!["preempt", "steal", "shard_override"],
      },
      _ => return None,
   };
   Some(s)
}

pub fn real_vs_stub() -> serde_json::Value {
   serde_json::json!({
      "real": ["ascent_macro (all macros; + cfg(ascent_verif) token post-pass swapping lock types)", "ascent runtime: every index type, merge, freeze, aggregators", "ascent-byods-rels (ceqrel_ind with the scheduler-aware Mutex)", "rayon 1.12 iterator layer", "dashmap 5.5.3 except its RawRwLock (scheduler-aware spin lock, a yield point before each acquisition)", "hashbrown", "boxcar 0.1.0 (+3 yield points inside push)", "once_cell"],
      "model": ["rayon-core (simulated pool: spawn-per-steal, seeded steal decisions)", "std::sync::{Mutex,RwLock} in generated code -> shuttle::sync", "OS threads -> shuttle coroutines on one OS thread, sequentially consistent", "Instant -> virtual clock"],
   })
}

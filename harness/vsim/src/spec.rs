//! Per-check constants: budgets, evidence texts.

pub struct Spec {
   pub id: &'static str,
   pub level: &'static str,
   pub quick_cases: u64,
   pub thorough_cases: u64,
   pub rule: &'static str,
   pub assumptions: Vec<&'static str>,
   /// fault kinds / probes that a healthy batch must have exercised at least once
   pub expected_probes: Vec<&'static str>,
}

const COMMON_RULE: &str = "One case = (program, variant, input facts, history of operations, pool plan, knob values, schedule plan) derived from mix(VERIF_SEED, check, index); it is executed once inside one shuttle execution on the simulated rayon pool. A case counts as non-trivial when at least one runnable task was preempted in favour of another task (so two tasks really interleaved); distinct = distinct trace hashes (hash over every scheduling decision and every PRNG draw handed to the simulated code) among the non-trivial ones.";

fn common_assumptions() -> Vec<&'static str> {
   vec![
      "Engine A is sequentially consistent: relaxed atomics, real shard-lock contention and boxcar's lock-free push are atomic steps between yield points",
      "rayon-core is a model (spawn-per-steal pool, DESIGN.md 2.1); rayon's iterator layer, dashmap, hashbrown, boxcar and all of ascent are the real code",
      "the serial evaluator (ascent!) is the trusted reference where a reference is used",
      "a clean batch is evidence, not proof: schedules, inputs and programs are sampled",
   ]
}

pub fn spec(id: &str) -> Option<Spec> {
   let s = match id {
      "C02" => Spec {
         id: "C02",
         level: "exploration",
         quick_cases: 60000,
         thorough_cases: 1500000,
         rule: COMMON_RULE,
         assumptions: common_assumptions(),
         expected_probes: vec!["preempt", "steal", "plan_flip_len_noise", "plan_flip_empty_mask", "shard_override"],
      },
      "C05" => Spec {
         id: "C05",
         level: "exploration",
         quick_cases: 60000,
         thorough_cases: 1500000,
         rule: COMMON_RULE,
         assumptions: common_assumptions(),
         expected_probes: vec!["preempt", "steal", "shard_override"],
      },
      "C10" => Spec {
         id: "C10",
         level: "exploration",
         quick_cases: 40000,
         thorough_cases: 1000000,
         rule: "One case = one ascent_par! program whose binary relation is tagged #[ds(eqrel)] (concurrent provider ceqrel_ind: one mutex-protected union-find written by all workers, frozen old/combined pair read by all workers), one input, one run under a seeded schedule; compared on every plain relation with the explicit-closure twin (reflexive/symmetric/transitive rules written out) evaluated serially. About 15% of the cases run the serial eqrel provider instead, and the cases of the ternary program eq_tern (eq(K,T,T), serial only: the provider has no concurrent implementation) always do (baseline configuration, no schedule dimension; never counted as non-trivial). Non-trivial/distinct as for C02.",
         assumptions: {
            let mut a = common_assumptions();
            a.push("decided by schedule search for the parallel binary form only; the serial binary form and the serial-only ternary form run as the fault-free baseline of the same oracle (no schedule to search); fully-bound reads of a parallel eqrel (rejected by the parallel front end) and reads of a ternary eqrel with only column 2 bound (do not compile) are out of reach");
            a
         },
         expected_probes: vec!["preempt", "steal"],
      },
      "C13" => Spec {
         id: "C13",
         level: "exploration",
         quick_cases: 30000,
         thorough_cases: 600000,
         rule: "One case = one program value driven through a seeded history (run | push facts into any relation, also derived ones | run again, each run under its own pool and schedule). Model = set of facts pushed so far; after every completed run the state is compared with the previous snapshot (idempotence, if nothing was pushed) and, for positive programs, with the serial twin run fresh on the model. Non-trivial/distinct as for C02 (>= 1 preemption; distinct trace hashes); serial-variant histories (baseline configuration, no schedule) never count as non-trivial.",
         assumptions: common_assumptions(),
         expected_probes: vec!["preempt", "steal", "pool_switch"],
      },
      "C14" => Spec {
         id: "C14",
         level: "fault_enumeration",
         quick_cases: 80000,
         thorough_cases: 800000,
         rule: "Fault = the virtual clock jumps past the timeout at clock reading k. For every group (program, input, knobs, schedule plan) a dry run with a clock that ticks 1 ns per reading identifies the deadline checks of the uninterrupted run (the readings at which `elapsed()` is evaluated on the call's start instant), and then every deadline check (up to 49 per group; groups with more are counted as truncated) is executed as its own case: the clock jumps past the timeout exactly at that check, run_timeout returns false there, then an uninterrupted run() follows; further slots of a group are seeded sequences of up to 4 interruptions (ticking clocks, large jumps, timeout 0, Duration::MAX, pushes in between). Returned false => state must be a sound under-approximation of the fixed point; any completed call => exactly the fixed point. Non-trivial = the deadline actually struck (run_timeout returned false at least once) or, for parallel variants, >= 1 preemption; distinct = distinct (trace hash, strike reading) pairs.",
         assumptions: {
            let mut a = common_assumptions();
            a.push("the only time source of generated code is ascent::internal::Instant (checked by reading the generator); it is replaced by the virtual clock");
            a
         },
         expected_probes: vec!["deadline_strike"],
      },
      "C19" => Spec {
         id: "C19",
         level: "exploration",
         quick_cases: 150000,
         thorough_cases: 3000000,
         rule: "One case = one index type (CRelIndex, CRelFullIndex, CLatIndex, CRelNoIndex; ~15% the serial types as baseline) driven as a (new, delta, total) triple through 2-5 rounds of: owner-side inserts through the &mut path, 1-4 simulated workers inserting / insert-if-absent concurrently into `new` (few keys, unique values), optional freeze+read-back of `new`, merge_delta_to_total_new_to_delta, freeze, reads of present and absent keys through index_get / c_index_get / iter_all / c_iter_all / contains_key / len_estimate / is_empty and the RelIndexCombined view (the c_ variants through the real rayon plumbing on the simulated pool), unfreeze. Checked operation by operation against a sequential multimap model plus a per-key first-writer-wins linearizability check over invoke/return events stamped with the simulator's global event sequence number. Non-trivial/distinct as for C02.",
         assumptions: {
            let mut a = common_assumptions();
            a.push("keys never collide across new/delta/total for the full index and values are unique, as in generated code; what the index types do outside that contract is not judged");
            a
         },
         expected_probes: vec!["preempt", "steal"],
      },
      "C20" => Spec {
         id: "C20",
         level: "exploration",
         quick_cases: 30000,
         thorough_cases: 600000,
         rule: "One case = 1-3 program instances (same or different generated types, serial and parallel mixed) constructed and run concurrently on their own simulated threads, each construction and each run under its own pool reference (global pool, one of up to 3 custom pools of size 1/2/3/4/8, or a nested install), optionally run a second time under another pool; worker processes differ in the pool size that first evaluated the process-wide shard-count Lazy. Every instance must equal its serial twin run alone. Non-trivial/distinct as for C02.",
         assumptions: common_assumptions(),
         expected_probes: vec!["preempt", "steal", "co_tenant", "pool_switch"],
      },
      _ => return None,
   };
   Some(s)
}

pub fn real_vs_stub() -> serde_json::Value {
   serde_json::json!({
      "real": ["ascent_macro (all macros; + cfg(ascent_verif) token post-pass swapping lock types)", "ascent runtime: every index type, merge, freeze, aggregators", "ascent-byods-rels (ceqrel_ind with the scheduler-aware Mutex)", "rayon 1.12 iterator layer", "dashmap 5.5.3 except its RawRwLock (scheduler-aware spin lock, a yield point before each acquisition)", "hashbrown", "boxcar 0.1.0 (+3 yield points inside push)", "once_cell"],
      "model": ["rayon-core (simulated pool: spawn-per-steal, seeded steal decisions)", "std::sync::{Mutex,RwLock} in generated code -> shuttle::sync", "OS threads -> shuttle coroutines on one OS thread, sequentially consistent", "Instant -> virtual clock"],
   })
}

mod c19;
mod case;
mod driver;
mod engine_b;
mod exec;
mod gen;
mod gen14;
mod json;
mod known;
mod minimize;
mod oracle;
mod sched;
mod spec;
mod worker;

use std::path::PathBuf;

fn arg_after(args: &[String], flag: &str) -> Option<String> {
   args.iter().position(|a| a == flag).and_then(|i| args.get(i + 1).cloned())
}

fn main() {
   let args: Vec<String> = std::env::args().skip(1).collect();
   match args.first().map(|s| s.as_str()) {
      Some("check") => {
         let id = args.get(1).cloned().unwrap_or_default();
         let tier = args.get(2).cloned().unwrap_or_else(|| "quick".into());
         driver::check_main(&id, &tier);
      },
      Some("selfcheck") => {
         let n: u64 = args.get(1).and_then(|s| s.parse().ok()).unwrap_or(1000);
         let checks: Vec<String> = if args.len() > 2 { args[2..].to_vec() } else { ["C02", "C05", "C10", "C13", "C14", "C19", "C20"].iter().map(|s| s.to_string()).collect() };
         driver::selfcheck_main(&checks, n);
      },
      Some("worker") => {
         let check = arg_after(&args, "--check").unwrap();
         let tier = arg_after(&args, "--tier").unwrap();
         let seed: u64 = arg_after(&args, "--seed").unwrap().parse().unwrap();
         let from: u64 = arg_after(&args, "--from").unwrap().parse().unwrap();
         let to: u64 = arg_after(&args, "--to").unwrap().parse().unwrap();
         let out = PathBuf::from(arg_after(&args, "--out").unwrap());
         worker::start_watchdog(Some(out.with_extension("hang.json")));
         let sum = worker::run_range(&check, tier == "thorough", seed, from, to, &gen::gen_case);
         std::fs::write(&out, serde_json::to_string(&sum).unwrap()).unwrap();
      },
      Some("replay") => {
         let json_mode = args.iter().any(|a| a == "--json");
         let file = args.iter().skip(1).find(|a| !a.starts_with("--")).expect("replay <file>");
         let text = std::fs::read_to_string(file).unwrap_or_else(|e| driver::harness_error(&format!("cannot read {}: {}", file, e)));
         if let Ok(job) = serde_json::from_str::<engine_b::MiriJob>(&text) {
            if job.engine == "miri" {
               std::fs::create_dir_all("/verif/work").ok();
               let out = engine_b::run_job(&job, std::path::Path::new("/verif/work/miri_replay.log")).unwrap_or_else(|e| driver::harness_error(&e));
               if json_mode {
                  println!("REPLAY-JSON {}", serde_json::json!({"class": out.class, "detail": out.detail, "hash": 0}));
                  return;
               }
               match out.class {
                  Some(c) => {
                     println!("violation: {}: {}", c, out.detail);
                     println!("VIOLATION property={} replay={}", job.check, file);
                     std::process::exit(1);
                  },
                  None => {
                     println!("Engine B replay: {} executions, no report", out.ok_runs);
                     return;
                  },
               }
            }
         }
         let case: case::Case = serde_json::from_str(&text).unwrap_or_else(|e| driver::harness_error(&format!("cannot parse {}: {}", file, e)));
         exec::pin_process(case.proc_first_pool);
         *worker::REPLAY_FILE.lock().unwrap() = file.clone();
         worker::start_watchdog(None);
         worker::watch(&case);
         let obs = exec::execute(&case);
         worker::unwatch();
         let v = oracle::judge(&case, &obs);
         if json_mode {
            println!(
               "REPLAY-JSON {}",
               serde_json::json!({"class": v.as_ref().map(|v| v.class.clone()), "detail": v.as_ref().map(|v| v.detail.clone()).unwrap_or_default(), "hash": obs.sched.hash})
            );
            return;
         }
         println!("replayed {}: {} steps, {} preemptions, trace hash {:016x}", file, obs.sched.steps, obs.sched.preemptions, obs.sched.hash);
         match v {
            Some(v) => {
               println!("violation: {}: {}", v.class, v.detail);
               println!("VIOLATION property={} replay={}", case.check, file);
               std::process::exit(1);
            },
            None => println!("no violation"),
         }
      },
      Some("debug") => {
         // print what an execution of a case file observed (development aid)
         let file = args.get(1).expect("debug <file>");
         let case: case::Case = serde_json::from_str(&std::fs::read_to_string(file).unwrap()).unwrap();
         exec::pin_process(case.proc_first_pool);
         let obs = exec::execute(&case);
         println!("failure: {:?}; steps {} preemptions {}", obs.failure, obs.sched.steps, obs.sched.preemptions);
         for s in obs.snaps.iter() {
            let def = exec::program(&case.actors[s.actor].program);
            println!("actor {} op {} ret {:?}", s.actor, s.op, s.ret);
            for (m, rows) in def.rels.iter().zip(s.rels.iter()) {
               let mut r: Vec<String> = rows.iter().map(|x| format!("{:?}", x)).collect();
               r.sort();
               println!("   {} ({}): {}", m.name, r.len(), r.join(" "));
            }
         }
         println!("judge: {:?}", oracle::judge(&case, &obs));
         if case.check == "C20" {
            for ai in 0..case.actors.len() {
               let def = exec::program(&case.actors[ai].program);
               for s in oracle::solo_snaps(&case, ai) {
                  println!("SOLO actor {} op {}", ai, s.op);
                  for (m, rows) in def.rels.iter().zip(s.rels.iter()) {
                     let mut r: Vec<String> = rows.iter().map(|x| format!("{:?}", x)).collect();
                     r.sort();
                     println!("   {} ({}): {}", m.name, r.len(), r.join(" "));
                  }
               }
            }
         }
      },
      Some("gen") => {
         // print the case a (check, seed, index) denotes
         let check = args.get(1).cloned().unwrap();
         let seed: u64 = args.get(2).unwrap().parse().unwrap();
         let index: u64 = args.get(3).unwrap().parse().unwrap();
         exec::pin_process(1);
         println!("{}", serde_json::to_string_pretty(&gen::gen_case(&check, false, seed, index)).unwrap());
      },
      Some("programs") =>
         for p in exec::registry() {
            println!("{} tags={:?} variants={:?} positive={}", p.name, p.tags, p.variants.iter().map(|v| v.name()).collect::<Vec<_>>(), p.positive);
         },
      _ => {
         eprintln!("usage: vsim check <id> <quick|thorough> | worker ... | replay [--json] <file> | gen <check> <seed> <index> | programs");
         std::process::exit(2);
      },
   }
}

use ascent::ascent_par;
ascent_par! {
   struct Tc;
   relation edge(u32, u32);
   relation path(u32, u32);
   path(x, y) <-- edge(x, y);
   path(x, z) <-- edge(x, y), path(y, z);
}
fn main() {
   let mut cfg = shuttle::Config::new();
   cfg.stack_size = 1 << 20;
   cfg.failure_persistence = shuttle::FailurePersistence::None;
   let sched = shuttle::scheduler::RandomScheduler::new_from_seed(1, 200);
   let t = std::time::Instant::now();
   let n = shuttle::Runner::new(sched, cfg).run(|| {
      rayon_core::sim::begin_execution(rayon_core::sim::SimConfig { global_threads: 4, steal_permille: 500 });
      verif_rt::begin(&Default::default());
      let mut p = Tc::default();
      for i in 0..6u32 { p.edge.push((i, i + 1)); p.edge.push((i, (i + 2) % 7)); }
      p.run();
      let mut rows: Vec<_> = p.path.iter().map(|r| *r).collect();
      rows.sort();
      let n = rows.len(); rows.dedup();
      assert_eq!(n, rows.len());
      let c = verif_rt::end();
      let _ = c;
   });
   println!("{} executions in {:?}; stats {:?}", n, t.elapsed(), rayon_core::sim::take_stats());
}

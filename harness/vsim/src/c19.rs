//! C19: the index building blocks as the shared-state surface of the runtime.
//! A scenario drives (new, delta, total) triples of one index type through rounds of
//! concurrent inserts / insert-if-absent by several simulated workers, freeze, reads through every
//! read path (serial and rayon-parallel), unfreeze and the merge step, against a sequential
//! multimap model. The oracle is evaluated inside the execution, operation by operation.

use std::collections::{BTreeMap, BTreeSet};
use std::sync::Mutex;

use ascent::internal::{
   CLatIndex, CRelFullIndex, CRelFullIndexWrite, CRelIndex, CRelIndexRead, CRelIndexReadAll, CRelIndexWrite, CRelNoIndex,
   Freezable, LatticeIndexType, RelFullIndexRead, RelFullIndexType, RelFullIndexWrite, RelIndexCombined, RelIndexMerge,
   RelIndexRead, RelIndexReadAll, RelIndexType1, RelIndexWrite, RelNoIndexType,
};
use rayon::iter::ParallelIterator;
use serde::{Deserialize, Serialize};

use crate::oracle::Violation;

#[derive(Clone, Debug, Serialize, Deserialize, PartialEq)]
pub struct WOp {
   /// 0 = index_insert, 1 = insert_if_not_present
   pub kind: u8,
   pub key: u32,
   pub val: u32,
}

#[derive(Clone, Debug, Serialize, Deserialize, PartialEq)]
pub struct Round {
   /// owner-side inserts through the `&mut` write path before the round: (target 0=new 1=delta 2=total, key, val)
   pub pre: Vec<(u8, u32, u32)>,
   /// one op list per concurrent writer (all write into `new`)
   pub writers: Vec<Vec<WOp>>,
   /// freeze `new` and read it back before merging
   pub check_new: bool,
   pub merge: bool,
   /// keys looked up through every read path after the merge (present and absent ones)
   pub lookups: Vec<u32>,
   /// every freeze / unfreeze of this round is issued twice (a redundant transition must be a no-op)
   #[serde(default)]
   pub redundant: bool,
}

#[derive(Clone, Debug, Serialize, Deserialize, PartialEq)]
pub struct IndexScenario {
   pub ty: String,
   /// size of the pool in which the workers run
   pub pool: usize,
   /// size of the pool that is current when the three indices are constructed
   pub construct_pool: usize,
   /// 0: all three indices are constructed under `construct_pool`. 1: as in generated code, the
   /// relation's stored index (constructed with the program value or left by an earlier run, under
   /// `construct_pool`) becomes `delta`, while `total` and `new` are created inside run(), under the
   /// pool the workers run in. 2: as a custom provider might, `total` under `construct_pool`,
   /// `delta` and `new` under the workers' pool.
   #[serde(default)]
   pub split_construct: u8,
   pub rounds: Vec<Round>,
}

pub const TYPES: [&str; 8] =
   ["CRelIndex", "CRelFullIndex", "CLatIndex", "CRelNoIndex", "RelIndexType1", "RelFullIndexType", "LatticeIndexType", "RelNoIndexType"];

#[derive(Clone, Copy, PartialEq, Eq, Debug)]
pub enum Kind {
   /// multimap key -> multiset of values
   Multi,
   /// map key -> one value, with insert-if-absent
   Full,
   /// multimap key -> set of values
   Set,
   /// no key: one multiset
   NoKey,
}

type Model = BTreeMap<u32, Vec<u32>>;

fn norm(kind: Kind, m: &Model) -> BTreeMap<u32, Vec<u32>> {
   m.iter()
      .filter(|(_, v)| !v.is_empty())
      .map(|(k, v)| {
         let mut v = v.clone();
         v.sort();
         if kind == Kind::Set {
            v.dedup();
         }
         (*k, v)
      })
      .collect()
}

fn norm_vec(kind: Kind, v: Vec<(u32, Vec<u32>)>) -> Result<BTreeMap<u32, Vec<u32>>, String> {
   let mut m = BTreeMap::new();
   for (k, mut vals) in v {
      vals.sort();
      if kind == Kind::Set {
         let n = vals.len();
         vals.dedup();
         if n != vals.len() {
            return Err(format!("iteration returned a duplicate set element under key {}", k));
         }
      }
      if vals.is_empty() {
         continue;
      }
      if m.insert(k, vals).is_some() {
         return Err(format!("iteration returned key {} twice", k));
      }
   }
   Ok(m)
}

pub trait Idx: Default + Send + Sync {
   const KIND: Kind;
   const CONCURRENT: bool;
   fn c_insert(&self, k: u32, v: u32);
   fn c_insert_if_absent(&self, _k: u32, _v: u32) -> bool { unreachable!() }
   fn m_insert(&mut self, k: u32, v: u32);
   fn m_insert_if_absent(&mut self, _k: u32, _v: u32) -> bool { unreachable!() }
   fn freeze(&mut self);
   fn unfreeze(&mut self);
   fn merge(new: &mut Self, delta: &mut Self, total: &mut Self);
   fn get(&self, k: u32) -> Option<Vec<u32>>;
   fn c_get(&self, k: u32) -> Option<Vec<u32>>;
   fn all(&self) -> Vec<(u32, Vec<u32>)>;
   fn c_all(&self) -> Vec<(u32, Vec<u32>)>;
   fn contains(&self, _k: u32) -> Option<bool> { None }
   fn len_est(&self) -> usize;
   fn empty(&self) -> bool;
   fn comb_get(a: &Self, b: &Self, k: u32) -> Option<Vec<u32>>;
   fn comb_c_get(a: &Self, b: &Self, k: u32) -> Option<Vec<u32>>;
   fn comb_all(a: &Self, b: &Self) -> Vec<(u32, Vec<u32>)>;
   fn comb_c_all(a: &Self, b: &Self) -> Vec<(u32, Vec<u32>)>;
   fn comb_len_empty(a: &Self, b: &Self) -> (usize, bool);
}

macro_rules! keyed_reads {
   ($deref_all:expr) => {
      fn get(&self, k: u32) -> Option<Vec<u32>> { self.index_get(&(k,)).map(|it| it.map(|v| *v).collect()) }
      fn c_get(&self, k: u32) -> Option<Vec<u32>> { self.c_index_get(&(k,)).map(|it| it.map(|v| *v).collect()) }
      fn all(&self) -> Vec<(u32, Vec<u32>)> { self.iter_all().map(|(k, vs)| (k.0, vs.map($deref_all).collect())).collect() }
      fn c_all(&self) -> Vec<(u32, Vec<u32>)> {
         self.c_iter_all().map(|(k, vs)| (k.0, vs.map(|v| *v).collect::<Vec<u32>>())).collect()
      }
      fn len_est(&self) -> usize { self.len_estimate() }
      fn empty(&self) -> bool { RelIndexRead::is_empty(self) }
      fn comb_get(a: &Self, b: &Self, k: u32) -> Option<Vec<u32>> {
         RelIndexCombined::new(a, b).index_get(&(k,)).map(|it| it.map(|v| *v).collect())
      }
      fn comb_c_get(a: &Self, b: &Self, k: u32) -> Option<Vec<u32>> {
         RelIndexCombined::new(a, b).c_index_get(&(k,)).map(|it| it.map(|v| *v).collect())
      }
      fn comb_all(a: &Self, b: &Self) -> Vec<(u32, Vec<u32>)> {
         RelIndexCombined::new(a, b).iter_all().map(|(k, vs)| (k.0, vs.map($deref_all).collect())).collect()
      }
      fn comb_c_all(a: &Self, b: &Self) -> Vec<(u32, Vec<u32>)> {
         RelIndexCombined::new(a, b).c_iter_all().map(|(k, vs)| (k.0, vs.map(|v| *v).collect::<Vec<u32>>())).collect()
      }
      fn comb_len_empty(a: &Self, b: &Self) -> (usize, bool) {
         let c = RelIndexCombined::new(a, b);
         (c.len_estimate(), c.is_empty())
      }
   };
}

impl Idx for CRelIndex<(u32,), u32> {
   const KIND: Kind = Kind::Multi;
   const CONCURRENT: bool = true;
   fn c_insert(&self, k: u32, v: u32) { CRelIndexWrite::index_insert(self, (k,), v) }
   fn m_insert(&mut self, k: u32, v: u32) { RelIndexWrite::index_insert(self, (k,), v) }
   fn freeze(&mut self) { Freezable::freeze(self) }
   fn unfreeze(&mut self) { Freezable::unfreeze(self) }
   fn merge(new: &mut Self, delta: &mut Self, total: &mut Self) {
      RelIndexMerge::merge_delta_to_total_new_to_delta(new, delta, total)
   }
   keyed_reads!(|v: &u32| *v);
}

impl Idx for CRelFullIndex<(u32,), u32> {
   const KIND: Kind = Kind::Full;
   const CONCURRENT: bool = true;
   fn c_insert(&self, k: u32, v: u32) { CRelIndexWrite::index_insert(self, (k,), v) }
   fn c_insert_if_absent(&self, k: u32, v: u32) -> bool { CRelFullIndexWrite::insert_if_not_present(self, &(k,), v) }
   fn m_insert(&mut self, k: u32, v: u32) { RelIndexWrite::index_insert(self, (k,), v) }
   fn m_insert_if_absent(&mut self, k: u32, v: u32) -> bool { RelFullIndexWrite::insert_if_not_present(self, &(k,), v) }
   fn freeze(&mut self) { Freezable::freeze(self) }
   fn unfreeze(&mut self) { Freezable::unfreeze(self) }
   fn merge(new: &mut Self, delta: &mut Self, total: &mut Self) {
      RelIndexMerge::merge_delta_to_total_new_to_delta(new, delta, total)
   }
   fn contains(&self, k: u32) -> Option<bool> { Some(RelFullIndexRead::contains_key(self, &(k,))) }
   keyed_reads!(|v: u32| v);
}

impl Idx for CLatIndex<(u32,), u32> {
   const KIND: Kind = Kind::Set;
   const CONCURRENT: bool = true;
   fn c_insert(&self, k: u32, v: u32) { CRelIndexWrite::index_insert(self, (k,), v) }
   fn m_insert(&mut self, k: u32, v: u32) { RelIndexWrite::index_insert(self, (k,), v) }
   fn freeze(&mut self) { Freezable::freeze(self) }
   fn unfreeze(&mut self) { Freezable::unfreeze(self) }
   fn merge(new: &mut Self, delta: &mut Self, total: &mut Self) {
      RelIndexMerge::merge_delta_to_total_new_to_delta(new, delta, total)
   }
   keyed_reads!(|v: u32| v);
}

impl Idx for CRelNoIndex<u32> {
   const KIND: Kind = Kind::NoKey;
   const CONCURRENT: bool = true;
   fn c_insert(&self, _k: u32, v: u32) { CRelIndexWrite::index_insert(self, (), v) }
   fn m_insert(&mut self, _k: u32, v: u32) { RelIndexWrite::index_insert(self, (), v) }
   fn freeze(&mut self) { Freezable::freeze(self) }
   fn unfreeze(&mut self) { Freezable::unfreeze(self) }
   fn merge(new: &mut Self, delta: &mut Self, total: &mut Self) {
      RelIndexMerge::merge_delta_to_total_new_to_delta(new, delta, total)
   }
   fn get(&self, _k: u32) -> Option<Vec<u32>> { self.index_get(&()).map(|it| it.map(|v| *v).collect()) }
   fn c_get(&self, _k: u32) -> Option<Vec<u32>> { self.c_index_get(&()).map(|it| it.map(|v| *v).collect()) }
   fn all(&self) -> Vec<(u32, Vec<u32>)> { self.iter_all().map(|(_, vs)| (0, vs.map(|v| *v).collect())).collect() }
   fn c_all(&self) -> Vec<(u32, Vec<u32>)> {
      self.c_iter_all().map(|(_, vs)| (0u32, vs.map(|v| *v).collect::<Vec<u32>>())).collect()
   }
   fn len_est(&self) -> usize { self.len_estimate() }
   fn empty(&self) -> bool { RelIndexRead::is_empty(self) }
   fn comb_get(a: &Self, b: &Self, _k: u32) -> Option<Vec<u32>> {
      RelIndexCombined::new(a, b).index_get(&()).map(|it| it.map(|v| *v).collect())
   }
   fn comb_c_get(a: &Self, b: &Self, _k: u32) -> Option<Vec<u32>> {
      RelIndexCombined::new(a, b).c_index_get(&()).map(|it| it.map(|v| *v).collect())
   }
   fn comb_all(a: &Self, b: &Self) -> Vec<(u32, Vec<u32>)> {
      // the two halves both report the unit key: fold them
      let mut all: Vec<u32> = vec![];
      for (_, vs) in RelIndexCombined::new(a, b).iter_all() {
         all.extend(vs.map(|v| *v));
      }
      vec![(0, all)]
   }
   fn comb_c_all(a: &Self, b: &Self) -> Vec<(u32, Vec<u32>)> {
      let parts: Vec<Vec<u32>> = RelIndexCombined::new(a, b).c_iter_all().map(|(_, vs)| vs.map(|v| *v).collect::<Vec<u32>>()).collect();
      vec![(0, parts.into_iter().flatten().collect())]
   }
   fn comb_len_empty(a: &Self, b: &Self) -> (usize, bool) {
      let c = RelIndexCombined::new(a, b);
      (c.len_estimate(), c.is_empty())
   }
}

// ---- serial types (baseline configuration: same generator, one task, no schedule) ---------------

macro_rules! serial_common {
   () => {
      const CONCURRENT: bool = false;
      fn c_insert(&self, _k: u32, _v: u32) { unreachable!() }
      fn freeze(&mut self) {}
      fn unfreeze(&mut self) {}
      fn merge(new: &mut Self, delta: &mut Self, total: &mut Self) {
         RelIndexMerge::merge_delta_to_total_new_to_delta(new, delta, total)
      }
      fn c_get(&self, k: u32) -> Option<Vec<u32>> { Idx::get(self, k) }
      fn c_all(&self) -> Vec<(u32, Vec<u32>)> { Idx::all(self) }
      fn comb_c_get(a: &Self, b: &Self, k: u32) -> Option<Vec<u32>> { Self::comb_get(a, b, k) }
      fn comb_c_all(a: &Self, b: &Self) -> Vec<(u32, Vec<u32>)> { Self::comb_all(a, b) }
      fn len_est(&self) -> usize { self.len_estimate() }
      fn empty(&self) -> bool { RelIndexRead::is_empty(self) }
      fn comb_len_empty(a: &Self, b: &Self) -> (usize, bool) {
         let c = RelIndexCombined::new(a, b);
         (c.len_estimate(), c.is_empty())
      }
   };
}

macro_rules! serial_keyed {
   () => {
      fn get(&self, k: u32) -> Option<Vec<u32>> { self.index_get(&(k,)).map(|it| it.map(|v| *v).collect()) }
      fn all(&self) -> Vec<(u32, Vec<u32>)> { self.iter_all().map(|(k, vs)| (k.0, vs.map(|v| *v).collect())).collect() }
      fn comb_get(a: &Self, b: &Self, k: u32) -> Option<Vec<u32>> {
         RelIndexCombined::new(a, b).index_get(&(k,)).map(|it| it.map(|v| *v).collect())
      }
      fn comb_all(a: &Self, b: &Self) -> Vec<(u32, Vec<u32>)> {
         RelIndexCombined::new(a, b).iter_all().map(|(k, vs)| (k.0, vs.map(|v| *v).collect())).collect()
      }
   };
}

impl Idx for RelIndexType1<(u32,), u32> {
   const KIND: Kind = Kind::Multi;
   fn m_insert(&mut self, k: u32, v: u32) { RelIndexWrite::index_insert(self, (k,), v) }
   serial_common!();
   serial_keyed!();
}

impl Idx for RelFullIndexType<(u32,), u32> {
   const KIND: Kind = Kind::Full;
   fn m_insert(&mut self, k: u32, v: u32) { RelIndexWrite::index_insert(self, (k,), v) }
   fn m_insert_if_absent(&mut self, k: u32, v: u32) -> bool { RelFullIndexWrite::insert_if_not_present(self, &(k,), v) }
   fn contains(&self, k: u32) -> Option<bool> { Some(RelFullIndexRead::contains_key(self, &(k,))) }
   serial_common!();
   serial_keyed!();
}

impl Idx for LatticeIndexType<(u32,), u32> {
   const KIND: Kind = Kind::Set;
   fn m_insert(&mut self, k: u32, v: u32) { RelIndexWrite::index_insert(self, (k,), v) }
   serial_common!();
   serial_keyed!();
}

/// `RelNoIndexType` (= Vec<usize>) has write and merge impls only; generated code reads it as a slice
#[derive(Default)]
pub struct NoIdx(RelNoIndexType);

impl Idx for NoIdx {
   const KIND: Kind = Kind::NoKey;
   const CONCURRENT: bool = false;
   fn c_insert(&self, _k: u32, _v: u32) { unreachable!() }
   fn m_insert(&mut self, _k: u32, v: u32) { RelIndexWrite::index_insert(&mut self.0, (), v as usize) }
   fn freeze(&mut self) {}
   fn unfreeze(&mut self) {}
   fn merge(new: &mut Self, delta: &mut Self, total: &mut Self) {
      RelIndexMerge::merge_delta_to_total_new_to_delta(&mut new.0, &mut delta.0, &mut total.0)
   }
   fn get(&self, _k: u32) -> Option<Vec<u32>> { Some(self.0.iter().map(|v| *v as u32).collect()) }
   fn c_get(&self, k: u32) -> Option<Vec<u32>> { self.get(k) }
   fn all(&self) -> Vec<(u32, Vec<u32>)> { vec![(0, self.0.iter().map(|v| *v as u32).collect())] }
   fn c_all(&self) -> Vec<(u32, Vec<u32>)> { self.all() }
   fn len_est(&self) -> usize { self.0.len() }
   fn empty(&self) -> bool { self.0.is_empty() }
   fn comb_get(a: &Self, b: &Self, _k: u32) -> Option<Vec<u32>> { Some(a.0.iter().chain(b.0.iter()).map(|v| *v as u32).collect()) }
   fn comb_c_get(a: &Self, b: &Self, k: u32) -> Option<Vec<u32>> { Self::comb_get(a, b, k) }
   fn comb_all(a: &Self, b: &Self) -> Vec<(u32, Vec<u32>)> { vec![(0, Self::comb_get(a, b, 0).unwrap())] }
   fn comb_c_all(a: &Self, b: &Self) -> Vec<(u32, Vec<u32>)> { Self::comb_all(a, b) }
   fn comb_len_empty(a: &Self, b: &Self) -> (usize, bool) { (a.0.len() + b.0.len(), a.0.is_empty() && b.0.is_empty()) }
}

// ---- the scenario runner ----------------------------------------------------------------------

struct AssertSend<T>(T);
unsafe impl<T> Send for AssertSend<T> {}

fn bad(class: &str, detail: String) -> Violation { Violation { class: class.to_string(), detail, rel: None, rels: vec![], actor: None, op: None } }

fn model_insert(kind: Kind, m: &mut Model, k: u32, v: u32) {
   let k = if kind == Kind::NoKey { 0 } else { k };
   match kind {
      Kind::Full => {
         m.insert(k, vec![v]);
      },
      _ => m.entry(k).or_default().push(v),
   }
}

fn check_reads<I: Idx>(which: &str, idx: &I, model: &Model, lookups: &[u32], round: usize) -> Result<(), Violation> {
   let kind = I::KIND;
   let want = norm(kind, model);
   let ctx = format!("round {} {} of {}", round, which, std::any::type_name::<I>().rsplit("::").next().unwrap_or(""));
   for (path, got) in [("iter_all", idx.all()), ("c_iter_all", idx.c_all())] {
      let got = norm_vec(kind, got).map_err(|e| bad("iteration-duplicate", format!("{}: {} {}", ctx, path, e)))?;
      if kind == Kind::Full {
         // map semantics: every key exactly once, holding one of the values written for it (which
         // one survives a merge of two sides that both hold the key is not specified)
         let keys_ok = got.keys().eq(want.keys());
         let vals_ok = got.iter().all(|(k, v)| v.len() == 1 && want.get(k).map_or(false, |c| c.contains(&v[0])));
         if !keys_ok || !vals_ok {
            return Err(bad("multimap-mismatch", format!("{}: {} returned {:?}, model (candidate values per key) has {:?}", ctx, path, got, want)));
         }
      } else if got != want {
         return Err(bad("multimap-mismatch", format!("{}: {} returned {:?}, model has {:?}", ctx, path, got, want)));
      }
   }
   let mut keys: Vec<u32> = lookups.to_vec();
   keys.extend(want.keys().take(3));
   for k in keys {
      let mk = if kind == Kind::NoKey { 0 } else { k };
      let w = want.get(&mk).cloned().unwrap_or_default();
      for (path, got) in [("index_get", idx.get(k)), ("c_index_get", idx.c_get(k))] {
         let mut g = got.unwrap_or_default();
         g.sort();
         if kind == Kind::Set {
            let n = g.len();
            g.dedup();
            if n != g.len() {
               return Err(bad("iteration-duplicate", format!("{}: {}({}) returned a set element twice", ctx, path, k)));
            }
         }
         let ok = if kind == Kind::Full { (w.is_empty() && g.is_empty()) || (g.len() == 1 && w.contains(&g[0])) } else { g == w };
         if !ok {
            return Err(bad("multimap-mismatch", format!("{}: {}({}) returned {:?}, model has {:?}", ctx, path, k, g, w)));
         }
      }
      if let Some(c) = idx.contains(k) {
         if c != !w.is_empty() {
            return Err(bad("multimap-mismatch", format!("{}: contains_key({}) = {}, model has {:?}", ctx, k, c, w)));
         }
      }
   }
   let _ = idx.len_est(); // only required not to panic (e.g. division by zero on few shards)
   if idx.empty() && !want.is_empty() {
      return Err(bad("multimap-mismatch", format!("{}: is_empty() claims definitely empty, model has {:?}", ctx, want)));
   }
   Ok(())
}

fn check_combined<I: Idx>(total: &I, delta: &I, mt: &Model, md: &Model, lookups: &[u32], round: usize) -> Result<(), Violation> {
   let kind = I::KIND;
   // each half normalised on its own first (a set index holds an element once per half, however
   // often it was inserted there), then chained
   let mut union: Model = norm(kind, mt);
   for (k, v) in norm(kind, md) {
      union.entry(k).or_default().extend(v);
   }
   let want = norm(if kind == Kind::Set { Kind::Multi } else { kind }, &union);
   let ctx = format!("round {} combined(total, delta)", round);
   if kind == Kind::Full {
      // per key: one value per side that holds the key, each among that key's candidates
      let sides = |k: u32| mt.get(&k).map_or(0, |v| !v.is_empty() as usize) + md.get(&k).map_or(0, |v| !v.is_empty() as usize);
      for (path, got) in [("iter_all", I::comb_all(total, delta)), ("c_iter_all", I::comb_c_all(total, delta))] {
         let mut m: Model = BTreeMap::new();
         for (k, vs) in got {
            m.entry(k).or_default().extend(vs);
         }
         m.retain(|_, v| !v.is_empty());
         let ok = m.keys().eq(want.keys()) && m.iter().all(|(k, v)| v.len() == sides(*k) && v.iter().all(|x| want[k].contains(x)));
         if !ok {
            return Err(bad("multimap-mismatch", format!("{}: {} returned {:?}, model (candidates) has {:?}", ctx, path, m, want)));
         }
      }
      for k in lookups.iter().cloned().chain(want.keys().take(3).cloned()) {
         let w = want.get(&k).cloned().unwrap_or_default();
         for (path, got) in [("index_get", I::comb_get(total, delta, k)), ("c_index_get", I::comb_c_get(total, delta, k))] {
            let g = got.unwrap_or_default();
            if g.len() != sides(k) || !g.iter().all(|x| w.contains(x)) {
               return Err(bad("multimap-mismatch", format!("{}: {}({}) returned {:?}, model (candidates) has {:?}", ctx, path, k, g, w)));
            }
         }
      }
      let (_, e) = I::comb_len_empty(total, delta);
      if e && !want.is_empty() {
         return Err(bad("multimap-mismatch", format!("{}: is_empty() claims definitely empty", ctx)));
      }
      return Ok(());
   }
   for (path, got) in [("iter_all", I::comb_all(total, delta)), ("c_iter_all", I::comb_c_all(total, delta))] {
      // the combined view chains the two halves: a key may legitimately appear once per half
      let mut m: Model = BTreeMap::new();
      for (k, vs) in got {
         m.entry(k).or_default().extend(vs);
      }
      let got = norm(Kind::Multi, &m);
      if got != want {
         return Err(bad("multimap-mismatch", format!("{}: {} returned {:?}, model has {:?}", ctx, path, got, want)));
      }
   }
   for k in lookups.iter().cloned().chain(want.keys().take(3).cloned()) {
      let mk = if kind == Kind::NoKey { 0 } else { k };
      let w = want.get(&mk).cloned().unwrap_or_default();
      for (path, got) in [("index_get", I::comb_get(total, delta, k)), ("c_index_get", I::comb_c_get(total, delta, k))] {
         let mut g = got.unwrap_or_default();
         g.sort();
         if g != w {
            return Err(bad("multimap-mismatch", format!("{}: {}({}) returned {:?}, model has {:?}", ctx, path, k, g, w)));
         }
      }
   }
   let (_, e) = I::comb_len_empty(total, delta);
   if e && !want.is_empty() {
      return Err(bad("multimap-mismatch", format!("{}: is_empty() claims definitely empty", ctx)));
   }
   Ok(())
}

#[derive(Clone, Debug)]
struct IfAbsentEvent {
   key: u32,
   val: u32,
   invoked: u64,
   returned: u64,
   result: bool,
}

/// per-key first-writer-wins register: exactly one `true`; no `false` returns before any `true`-op
/// on that key was invoked; no `true` is invoked after another op on that key returned
fn check_linearizable(events: &[IfAbsentEvent], preexisting: &BTreeSet<u32>, round: usize) -> Result<(), Violation> {
   let mut by_key: BTreeMap<u32, Vec<&IfAbsentEvent>> = BTreeMap::new();
   for e in events {
      by_key.entry(e.key).or_default().push(e);
   }
   for (k, evs) in by_key {
      let trues: Vec<&&IfAbsentEvent> = evs.iter().filter(|e| e.result).collect();
      if preexisting.contains(&k) {
         if let Some(t) = trues.first() {
            return Err(bad("nonlinearizable", format!("round {}: insert_if_not_present({}, {}) succeeded although the key was already present", round, k, t.val)));
         }
         continue;
      }
      if trues.len() != 1 {
         return Err(bad(
            "nonlinearizable",
            format!("round {}: {} of {} racing insert_if_not_present calls on key {} returned true (history {:?})", round, trues.len(), evs.len(), k, evs),
         ));
      }
      let t = trues[0];
      for e in evs.iter() {
         if !e.result && e.returned < t.invoked {
            return Err(bad("nonlinearizable", format!("round {}: key {}: a failing call returned (seq {}) before the winning call was invoked (seq {})", round, k, e.returned, t.invoked)));
         }
         if !std::ptr::eq(*e, *t) && e.returned < t.invoked {
            return Err(bad("nonlinearizable", format!("round {}: key {}: the winning call was invoked after another call on the key had returned", round, k)));
         }
      }
   }
   Ok(())
}

fn fz<I: Idx>(i: &mut I, twice: bool) {
   i.freeze();
   if twice {
      i.freeze();
   }
}

fn ufz<I: Idx>(i: &mut I, twice: bool) {
   i.unfreeze();
   if twice {
      i.unfreeze();
   }
}

fn run_typed<I: Idx + 'static>(sc: &IndexScenario) -> Result<(), Violation> {
   let kind = I::KIND;
   let construct = rayon_core::ThreadPoolBuilder::new().num_threads(sc.construct_pool).build().unwrap();
   let pool = rayon_core::ThreadPoolBuilder::new().num_threads(sc.pool).build().unwrap();
   let (mut new, mut delta, mut total) = construct.install(|| AssertSend((I::default(), I::default(), I::default()))).0;
   match sc.split_construct {
      1 => (new, total) = pool.install(|| AssertSend((I::default(), I::default()))).0,
      2 => (new, delta) = pool.install(|| AssertSend((I::default(), I::default()))).0,
      _ => {},
   }
   let (mut m_new, mut m_delta, mut m_total): (Model, Model, Model) = Default::default();
   for (ri, round) in sc.rounds.iter().enumerate() {
      if round.redundant {
         ufz(&mut new, false);
         ufz(&mut delta, false);
         ufz(&mut total, false);
      }
      // owner-side inserts through the exclusive write path
      for &(target, k, v) in round.pre.iter() {
         let (idx, m) = match target {
            0 => (&mut new, &mut m_new),
            1 => (&mut delta, &mut m_delta),
            _ => (&mut total, &mut m_total),
         };
         idx.m_insert(k, v);
         model_insert(kind, m, k, v);
      }
      // concurrent writers
      let events: Mutex<Vec<IfAbsentEvent>> = Mutex::new(vec![]);
      let preexisting: BTreeSet<u32> = m_new.iter().filter(|(_, v)| !v.is_empty()).map(|(k, _)| *k).collect();
      if I::CONCURRENT {
         let new_ref = &new;
         let events_ref = &events;
         pool.install(|| {
            rayon_core::scope(|s| {
               for w in round.writers.iter() {
                  s.spawn(move |_| {
                     for op in w.iter() {
                        if op.kind == 1 && kind == Kind::Full {
                           let invoked = verif_rt::event_seq();
                           let result = new_ref.c_insert_if_absent(op.key, op.val);
                           let returned = verif_rt::event_seq();
                           events_ref.lock().unwrap().push(IfAbsentEvent { key: op.key, val: op.val, invoked, returned, result });
                        } else {
                           new_ref.c_insert(op.key, op.val);
                        }
                     }
                  });
               }
            });
         });
      } else {
         for w in round.writers.iter() {
            for op in w.iter() {
               if op.kind == 1 && kind == Kind::Full {
                  let invoked = verif_rt::event_seq();
                  let result = new.m_insert_if_absent(op.key, op.val);
                  let returned = verif_rt::event_seq();
                  events.lock().unwrap().push(IfAbsentEvent { key: op.key, val: op.val, invoked, returned, result });
               } else {
                  new.m_insert(op.key, op.val);
               }
            }
         }
      }
      let events = events.into_inner().unwrap();
      check_linearizable(&events, &preexisting, ri)?;
      // model: plain inserts, then the winners of insert-if-absent
      for w in round.writers.iter() {
         for op in w.iter() {
            if !(op.kind == 1 && kind == Kind::Full) {
               model_insert(kind, &mut m_new, op.key, op.val);
            }
         }
      }
      for e in events.iter().filter(|e| e.result) {
         model_insert(kind, &mut m_new, e.key, e.val);
      }
      if round.check_new {
         fz(&mut new, round.redundant);
         pool.install(|| check_reads("new", &new, &m_new, &round.lookups, ri).map_err(AssertSend)).map_err(|e| e.0)?;
         ufz(&mut new, round.redundant);
      }
      if round.merge {
         pool.install(|| I::merge(&mut new, &mut delta, &mut total));
         // total = total (+) delta ; delta = new ; new = {}
         for (k, v) in std::mem::take(&mut m_delta) {
            // (full index: a key held by both sides keeps one of the two values: candidates)
            m_total.entry(k).or_default().extend(v);
         }
         m_delta = std::mem::take(&mut m_new);
      }
      fz(&mut total, round.redundant);
      fz(&mut delta, round.redundant);
      let r = pool.install(|| {
         check_reads("total", &total, &m_total, &round.lookups, ri)
            .and_then(|_| check_reads("delta", &delta, &m_delta, &round.lookups, ri))
            .and_then(|_| check_combined(&total, &delta, &m_total, &m_delta, &round.lookups, ri))
            .map_err(AssertSend)
      });
      r.map_err(|e| e.0)?;
      ufz(&mut total, round.redundant);
      ufz(&mut delta, round.redundant);
      // freeze / unfreeze round trip preserved `new` (must still be empty after a merge)
      if round.merge {
         fz(&mut new, round.redundant);
         let r = pool.install(|| check_reads("new(after merge)", &new, &m_new, &[], ri).map_err(AssertSend));
         r.map_err(|e| e.0)?;
         ufz(&mut new, round.redundant);
      }
   }
   Ok(())
}

pub fn run_scenario(sc: &IndexScenario) -> Result<(), Violation> {
   match sc.ty.as_str() {
      "CRelIndex" => run_typed::<CRelIndex<(u32,), u32>>(sc),
      "CRelFullIndex" => run_typed::<CRelFullIndex<(u32,), u32>>(sc),
      "CLatIndex" => run_typed::<CLatIndex<(u32,), u32>>(sc),
      "CRelNoIndex" => run_typed::<CRelNoIndex<u32>>(sc),
      "RelIndexType1" => run_typed::<RelIndexType1<(u32,), u32>>(sc),
      "RelFullIndexType" => run_typed::<RelFullIndexType<(u32,), u32>>(sc),
      "LatticeIndexType" => run_typed::<LatticeIndexType<(u32,), u32>>(sc),
      "RelNoIndexType" => run_typed::<NoIdx>(sc),
      other => panic!("unknown index type {}", other),
   }
}

// ---- generator ----------------------------------------------------------------------------------

pub fn gen_scenario(rng: &mut vcorpus::val::Rng, thorough: bool) -> IndexScenario {
   let concurrent = rng.chance(850);
   let ty = if concurrent { *rng.pick(&TYPES[..4]) } else { *rng.pick(&TYPES[4..]) };
   let kind_full = ty == "CRelFullIndex" || ty == "RelFullIndexType";
   let n_keys = rng.range(1, 6) as u32;
   let mut next_val = 100u32;
   let mut fresh_key = 1000u32;
   let overlap = rng.chance(250);
   // multimap kinds: the same (key, value) pair inserted again, in the same and in later rounds (as the
   // row id of a parallel lattice row is, every time the row improves), so that the two sides of a
   // merge hold equal values under one key
   let repeat = !kind_full && rng.chance(300);
   let n_rounds = rng.range(2, if thorough { 5 } else { 4 });
   let mut rounds = vec![];
   for round_no in 0..n_rounds as u32 {
      // racing keys are fresh per round: in generated code a key never reaches `new` when `delta`
      // or `total` already hold it, and the index types define nothing for that situation
      let race_base = (round_no + 1) * 50;
      let mut pre = vec![];
      let pre_max = if rng.chance(300) { 12 } else { 3 };
      for _ in 0..rng.below(pre_max) {
         next_val += 1;
         // for the full index every non-racing key is unique (as rows are in generated code)
         let k = if kind_full && overlap {
            // the same few keys go to new, delta and total: the merge sees a key on both sides
            900 + rng.below(4) as u32
         } else if kind_full {
            fresh_key += 1;
            fresh_key
         } else {
            rng.below(n_keys as u64) as u32
         };
         let v = if repeat && rng.chance(600) { 1 + rng.below(3) as u32 } else { next_val };
         pre.push((rng.below(3) as u8, k, v));
      }
      let n_writers = rng.range(1, 4) as usize;
      let mut writers = vec![];
      for _ in 0..n_writers {
         let ops_max = if rng.chance(250) { 10 } else { 4 };
         let n_ops = rng.below(ops_max) as usize;
         let mut ops = vec![];
         for _ in 0..n_ops {
            next_val += 1;
            if kind_full {
               if rng.chance(700) {
                  ops.push(WOp { kind: 1, key: race_base + rng.below(n_keys as u64) as u32, val: next_val });
               } else {
                  fresh_key += 1;
                  ops.push(WOp { kind: 0, key: fresh_key, val: next_val });
               }
            } else {
               let v = if repeat && rng.chance(600) { 1 + rng.below(3) as u32 } else { next_val };
               ops.push(WOp { kind: 0, key: rng.below(n_keys as u64) as u32, val: v });
            }
         }
         writers.push(ops);
      }
      let lookups: Vec<u32> = (0..rng.range(1, 3))
         .map(|_| if kind_full { race_base + rng.below(n_keys as u64 + 2) as u32 } else { rng.below(n_keys as u64 + 2) as u32 })
         .collect();
      rounds.push(Round { pre, writers, check_new: rng.chance(400), merge: rng.chance(850), lookups, redundant: rng.chance(250) });
   }
   // "hot shard" shape (concurrent full index): racers on one or two keys next to writers that
   // keep the same few shards busy with unrelated keys, all in round 0 and again after a merge
   if ty == "CRelFullIndex" && rng.chance(500) {
      rounds.clear();
      for round_no in 0..rng.range(1, 2) as u32 {
         let race_base = (round_no + 1) * 50;
         let n_race_keys = rng.range(1, 2) as u32;
         let mut writers = vec![];
         for _ in 0..rng.range(2, 3) {
            let mut ops = vec![];
            for _ in 0..rng.range(1, 2) {
               next_val += 1;
               ops.push(WOp { kind: 1, key: race_base + rng.below(n_race_keys as u64) as u32, val: next_val });
            }
            writers.push(ops);
         }
         for _ in 0..rng.range(1, 2) {
            let mut ops = vec![];
            for _ in 0..rng.range(2, 6) {
               next_val += 1;
               fresh_key += 1;
               ops.push(WOp { kind: 0, key: fresh_key, val: next_val });
            }
            writers.push(ops);
         }
         rng.shuffle(&mut writers);
         rounds.push(Round { pre: vec![], writers, check_new: rng.chance(300), merge: true, lookups: vec![race_base, race_base + 1], redundant: rng.chance(150) });
      }
   }
   let pool = *rng.pick(&[2usize, 2, 3, 4, 4, 8, 1]);
   let construct_pool = if rng.chance(700) { pool } else { *rng.pick(&[1usize, 2, 3, 4, 8]) };
   let split_construct = if construct_pool != pool && rng.chance(600) { rng.range(1, 2) as u8 } else { 0 };
   IndexScenario { ty: ty.to_string(), pool, construct_pool, split_construct, rounds }
}

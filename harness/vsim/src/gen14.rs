//! C14 generator: fault enumeration over deadline strikes.
//!
//! The index space is cut into groups of `STRIDE` cases. A group fixes (program, input, knobs,
//! schedule plan). The first `ENUM` slots of a group enumerate *every* clock reading k at which
//! the deadline can strike (k = slot + 1, up to the number of readings R of an uninterrupted dry
//! run, measured here); the remaining slots are seeded multi-interruption histories.

use std::cell::RefCell;
use std::collections::BTreeMap;

use vcorpus::prog::Variant;
use vcorpus::val::Rng;

use crate::case::{Actor, Case, Op, PoolRef};
use crate::gen::*;

pub const STRIDE: u64 = 125; // divides gen::CHUNK, so a group never spans two worker processes
pub const ENUM: u64 = 50;
pub const TIMEOUT_NS: u64 = 1_000_000_000;

thread_local! {
   /// group -> (readings of the uninterrupted dry run, reading indices of its deadline checks)
   static DRY: RefCell<BTreeMap<(u64, u64), (u64, Vec<u64>)>> = RefCell::new(BTreeMap::new());
   pub static GROUP_STATS: RefCell<GroupStats> = RefCell::new(GroupStats::default());
}

#[derive(Clone, Debug, Default)]
pub struct GroupStats {
   pub groups: u64,
   /// groups whose every reading 1..=R was enumerated
   pub exhaustive_groups: u64,
   pub truncated_groups: u64,
   pub readings_enumerated: u64,
}

fn group_base(seed: u64, group: u64) -> (Case, &'static vcorpus::ProgramDef) {
   let check = "C14";
   let mut rng = Rng::new(case_seed(seed, check, group * STRIDE));
   let mut case = Case {
      check: check.to_string(),
      seed,
      index: group * STRIDE,
      label: String::new(),
      proc_first_pool: proc_first_pool(seed, check, group * STRIDE),
      pools: vec![],
      knobs: gen_knobs(&mut rng),
      actors: vec![],
      sched: gen_sched(&mut rng),
      max_steps: MAX_STEPS,
      index_scenario: None,
      violation: None,
   };
   let progs: Vec<_> = programs_tagged("c14").into_iter().filter(|p| p.variants.contains(&Variant::SerTo)).collect();
   let def = *rng.pick(&progs);
   let variant = if rng.chance(400) || !def.variants.contains(&Variant::ParTo) { Variant::SerTo } else { Variant::ParTo };
   let g = def.gen("small").or(def.gen("chain")).unwrap_or(def.gens[0].1);
   let gname = def.gens.iter().find(|x| x.1 as usize == g as usize).map(|x| x.0).unwrap_or("?");
   // small inputs: the number of crash points to enumerate grows with the number of iterations
   let input = if rng.chance(500) { g(def, &mut rng) } else { let (_, gg) = *rng.pick(&def.gens); gg(def, &mut rng) };
   let mut ops: Vec<Op> = vec![Op::New { pool: PoolRef::Global }];
   for (ri, mut rows) in input {
      rows.truncate(10);
      ops.push(Op::Push { rel: def.rels[ri].name.to_string(), rows });
   }
   case.label = format!("{}/{}/{}", def.name, variant.name(), gname);
   case.actors.push(Actor { program: def.name.to_string(), variant: variant.name().to_string(), ops });
   (case, def)
}

fn strike(k: u64) -> Op {
   // clock stays at 0 until reading k, then jumps past the timeout: the first deadline check at
   // or after reading k returns false
   Op::RunTimeout { pool: PoolRef::Global, timeout_ns: TIMEOUT_NS, tick_ns: 0, jumps: vec![(k, TIMEOUT_NS)] }
}

fn dry_readings(seed: u64, group: u64, base: &Case) -> (u64, Vec<u64>) {
   if let Some(r) = DRY.with(|d| d.borrow().get(&(seed, group)).cloned()) {
      return r;
   }
   let mut dry = base.clone();
   // a clock that ticks 1 ns per reading never reaches the deadline, makes every instant distinct
   // and so lets the virtual clock tell which readings are deadline checks (`elapsed()` evaluated
   // on the call's start instant): one crash point per deadline check
   dry.actors[0].ops.push(Op::RunTimeout { pool: PoolRef::Global, timeout_ns: TIMEOUT_NS, tick_ns: 1, jumps: vec![] });
   let obs = crate::exec::execute(&dry);
   let r = obs.counters.clock_readings;
   let checks = verif_rt::clock::deadline_checks();
   DRY.with(|d| d.borrow_mut().insert((seed, group), (r, checks.clone())));
   GROUP_STATS.with(|g| {
      let mut g = g.borrow_mut();
      g.groups += 1;
      if (checks.len() as u64) < ENUM {
         g.exhaustive_groups += 1;
      } else {
         g.truncated_groups += 1;
      }
      g.readings_enumerated += (checks.len() as u64).min(ENUM - 1);
   });
   (r, checks)
}

pub fn gen_case(seed: u64, index: u64, thorough: bool) -> Option<Case> {
   let group = index / STRIDE;
   let slot = index % STRIDE;
   let (mut case, def) = group_base(seed, group);
   case.index = index;
   let (r, checks) = dry_readings(seed, group, &case);
   let mut rng = Rng::new(case_seed(seed, "C14", index) ^ 0x14);
   let ops = &mut case.actors[0].ops;
   if slot == 0 {
      // the dry run itself is a case: stalled clock => must return true with the full fixed point
      ops.push(Op::RunTimeout { pool: PoolRef::Global, timeout_ns: TIMEOUT_NS, tick_ns: 0, jumps: vec![] });
      case.label.push_str("/stalled-clock");
      return Some(case);
   }
   if slot < ENUM {
      // the (slot)-th deadline check of the uninterrupted run is the crash point
      let Some(&k) = checks.get(slot as usize - 1) else {
         return None; // the run has fewer deadline checks: nothing new to observe
      };
      ops.push(strike(k));
      ops.push(Op::Run { pool: PoolRef::Global });
      case.label.push_str("/strike-enum");
      return Some(case);
   }
   // seeded sequences of interruptions
   let n = rng.range(1, if thorough { 4 } else { 3 });
   let mut label = "/multi";
   for _ in 0..n {
      let op = match rng.below(12) {
         0 => {
            label = "/timeout-0";
            Op::RunTimeout { pool: PoolRef::Global, timeout_ns: 0, tick_ns: 0, jumps: vec![] }
         },
         1 => Op::RunTimeout { pool: PoolRef::Global, timeout_ns: u64::MAX, tick_ns: rng.range(0, 1000), jumps: vec![(rng.below(r.max(1)), u64::MAX / 4)] },
         2 | 3 => {
            // ticking clock: the deadline is reached after about m readings
            let tick = rng.range(1, 1000);
            let m = rng.range(1, r.max(2));
            Op::RunTimeout { pool: PoolRef::Global, timeout_ns: tick * m, tick_ns: tick, jumps: vec![] }
         },
         4 => Op::RunTimeout {
            pool: PoolRef::Global,
            timeout_ns: TIMEOUT_NS,
            tick_ns: 0,
            jumps: vec![(rng.below(r.max(1)), TIMEOUT_NS / 2), (rng.below(r.max(1)), TIMEOUT_NS / 2)],
         },
         _ => strike(rng.range(1, r.max(1))),
      };
      ops.push(op);
      if def.positive && rng.chance(250) {
         let so_far = ops.clone();
         if let Some(p) = push_for(def, &mut rng, &so_far) {
            ops.push(p);
         }
      }
   }
   if rng.chance(700) {
      ops.push(Op::Run { pool: PoolRef::Global });
   } else {
      ops.push(Op::RunTimeout { pool: PoolRef::Global, timeout_ns: u64::MAX, tick_ns: 7, jumps: vec![] });
   }
   case.label.push_str(label);
   Some(case)
}

fn push_for(def: &vcorpus::ProgramDef, rng: &mut Rng, so_far: &[Op]) -> Option<Op> { crate::gen::gen_push_pub(def, rng, so_far) }

//! The deciding scheduler (DESIGN.md §2.2): a deterministic default policy plus an explicit,
//! ordered list of deviations and the list of PRNG draws handed to the simulated program.
//! Generation modes produce deviations/draws from one seed; replay feeds the literal lists back.

use std::collections::{BTreeMap, VecDeque};
use std::sync::{Arc, Mutex};

use serde::{Deserialize, Serialize};
use shuttle::scheduler::{Schedule, Scheduler, Task, TaskId};
use vcorpus::val::Rng;

#[derive(Clone, Debug, Serialize, Deserialize, PartialEq)]
#[serde(tag = "mode", rename_all = "snake_case")]
pub enum GenMode {
   /// never deviate: current task while runnable, else lowest id
   Default,
   /// deviate with probability p (per mille) at every choice point
   RandomWalk { p: u32 },
   /// exactly `n` deviations at choice points drawn uniformly from `0..horizon`
   Sparse { n: u32, horizon: u32 },
   /// the `victim`-th created task is never chosen while another is runnable; others random-walk
   Starve { victim: u32, p: u32 },
}

#[derive(Clone, Debug, Serialize, Deserialize, PartialEq)]
#[serde(rename_all = "snake_case")]
pub enum SchedPlan {
   /// generate from a seed
   Gen { seed: u64, mode: GenMode },
   /// literal schedule: `(step, task)` deviations from the default policy and the PRNG draws
   Explicit { deviations: Vec<(u64, u32)>, draws: Vec<u64> },
}

#[derive(Clone, Debug, Default, Serialize, Deserialize)]
pub struct SchedRecord {
   pub deviations: Vec<(u64, u32)>,
   pub draws: Vec<u64>,
   pub steps: u64,
   pub choice_points: u64,
   /// steps at which the running task changed
   pub switches: u64,
   /// switches away from a task that was still runnable
   pub preemptions: u64,
   pub max_task: u32,
   pub hash: u64,
   /// first events, for evidence samples: (step, chosen task, number runnable)
   pub head: Vec<(u64, u32, u32)>,
}

pub struct PlanScheduler {
   gen: Option<(Rng, GenMode)>,
   sparse_points: Vec<u64>,
   deviations: BTreeMap<u64, u32>,
   draws_in: Option<VecDeque<u64>>,
   out: Arc<Mutex<SchedRecord>>,
   started: bool,
   last: Option<u32>,
}

fn fnv(h: u64, x: u64) -> u64 {
   let mut h = h;
   for b in x.to_le_bytes() {
      h ^= b as u64;
      h = h.wrapping_mul(0x100000001b3);
   }
   h
}

impl PlanScheduler {
   pub fn new(plan: &SchedPlan, out: Arc<Mutex<SchedRecord>>) -> Self {
      let mut s = PlanScheduler {
         gen: None,
         sparse_points: vec![],
         deviations: BTreeMap::new(),
         draws_in: None,
         out,
         started: false,
         last: None,
      };
      *s.out.lock().unwrap() = SchedRecord { hash: 0xcbf29ce484222325, ..Default::default() };
      match plan {
         SchedPlan::Gen { seed, mode } => {
            let mut rng = Rng::new(*seed);
            if let GenMode::Sparse { n, horizon } = mode {
               let mut pts: Vec<u64> = (0..*n).map(|_| rng.below((*horizon).max(1) as u64)).collect();
               pts.sort();
               pts.dedup();
               s.sparse_points = pts;
            }
            s.gen = Some((rng, mode.clone()));
         },
         SchedPlan::Explicit { deviations, draws } => {
            s.deviations = deviations.iter().cloned().collect();
            s.draws_in = Some(draws.iter().cloned().collect());
         },
      }
      s
   }
}

impl Scheduler for PlanScheduler {
   fn new_execution(&mut self) -> Option<Schedule> {
      if self.started {
         return None;
      }
      self.started = true;
      Some(Schedule::new(0))
   }

   fn next_task(&mut self, runnable: &[&Task], current: Option<TaskId>, is_yielding: bool) -> Option<TaskId> {
      let out = self.out.clone();
      let mut rec = out.lock().unwrap();
      let step = rec.steps;
      rec.steps += 1;
      // tasks blocked in `park` are offered for *spurious* wake-ups; never take that offer: it only
      // makes the waiter re-check and park again, and an unfair mode could spin on it forever
      let ids: Vec<u32> = runnable.iter().filter(|t| t.runnable()).map(|t| usize::from(t.id()) as u32).collect();
      let cur = current.map(|c| usize::from(c) as u32);
      let cur_runnable = cur.map_or(false, |c| ids.contains(&c));
      // default policy
      let lowest = |excl: Option<u32>| ids.iter().cloned().filter(|i| Some(*i) != excl).min();
      let mut choice = if cur_runnable && !is_yielding {
         cur.unwrap()
      } else if is_yielding {
         // a spinning task (contended simulated lock) hands over round-robin, so that the lock
         // holder is reached whatever its id is
         let next_after = cur.and_then(|c| ids.iter().cloned().filter(|i| *i > c).min());
         next_after.or_else(|| lowest(cur)).or(cur).unwrap_or(ids[0])
      } else {
         lowest(None).unwrap()
      };
      let default_choice = choice;
      if ids.len() > 1 {
         let cp = rec.choice_points;
         rec.choice_points += 1;
         if let Some((rng, mode)) = self.gen.as_mut() {
            let mut deviate_to: Option<u32> = None;
            let others: Vec<u32> = ids.iter().cloned().filter(|i| *i != default_choice).collect();
            match mode {
               GenMode::Default => {},
               GenMode::RandomWalk { p } =>
                  if rng.below(1000) < *p as u64 {
                     deviate_to = Some(*rng.pick(&others));
                  },
               GenMode::Sparse { .. } =>
                  if self.sparse_points.binary_search(&cp).is_ok() {
                     deviate_to = Some(*rng.pick(&others));
                  },
               // a spinning task (is_yielding) reports that it cannot progress: starving the lock
               // holder then would be a livelock made by the scheduler, not by the code
               GenMode::Starve { .. } if is_yielding => {},
               GenMode::Starve { victim, p } => {
                  let non_victims: Vec<u32> = others.iter().cloned().filter(|i| i != victim).collect();
                  if default_choice == *victim {
                     // others is non-empty here
                     deviate_to =
                        Some(if non_victims.is_empty() { others[0] } else { *rng.pick(&non_victims) });
                  } else if !non_victims.is_empty() && rng.below(1000) < *p as u64 {
                     deviate_to = Some(*rng.pick(&non_victims));
                  }
               },
            }
            if let Some(d) = deviate_to {
               choice = d;
            }
         } else if let Some(d) = self.deviations.get(&step) {
            // an unavailable deviation falls back to the default policy
            if ids.contains(d) {
               choice = *d;
            }
         }
      }
      if choice != default_choice {
         rec.deviations.push((step, choice));
      }
      if self.last != Some(choice) {
         if self.last.is_some() {
            rec.switches += 1;
            if self.last.map_or(false, |l| ids.contains(&l)) {
               rec.preemptions += 1;
            }
         }
         self.last = Some(choice);
      }
      rec.max_task = rec.max_task.max(ids.iter().cloned().max().unwrap_or(0));
      rec.hash = fnv(fnv(rec.hash, choice as u64), ids.len() as u64);
      if rec.head.len() < 40 && ids.len() > 1 {
         rec.head.push((step, choice, ids.len() as u32));
      }
      Some(TaskId::from(choice as usize))
   }

   fn next_u64(&mut self) -> u64 {
      let v = match (&mut self.gen, &mut self.draws_in) {
         (Some((rng, _)), _) => rng.next_u64(),
         (None, Some(d)) => d.pop_front().unwrap_or(0),
         (None, None) => 0,
      };
      let mut rec = self.out.lock().unwrap();
      rec.draws.push(v);
      rec.hash = fnv(rec.hash, v ^ 0x5555);
      v
   }
}

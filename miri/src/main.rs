//! Engine B scenarios. `vmiri <scenario> <seed>`: exit 0 = oracle held, exit 3 = oracle violated
//! (Miri itself aborts with its own report on undefined behaviour / data races).
#![allow(clippy::all)]
use std::collections::BTreeSet;

use ascent::{ascent, ascent_par, Dual};

struct Rng(u64);
impl Rng {
   fn next(&mut self) -> u64 {
      self.0 = self.0.wrapping_add(0x9E3779B97F4A7C15);
      let mut z = self.0;
      z = (z ^ (z >> 30)).wrapping_mul(0xBF58476D1CE4E5B9);
      z = (z ^ (z >> 27)).wrapping_mul(0x94D049BB133111EB);
      z ^ (z >> 31)
   }
   fn below(&mut self, n: u64) -> u64 { self.next() % n }
}

mod tc {
   use super::*;
   pub mod ser {
      use super::*;
      ascent! { pub struct P; relation edge(u32, u32); relation path(u32, u32); relation any(u32);
         path(x, y) <-- edge(x, y); path(x, z) <-- edge(x, y), path(y, z); any(x) <-- path(x, _), path(_, _); }
   }
   pub mod par {
      use super::*;
      ascent_par! { pub struct P; relation edge(u32, u32); relation path(u32, u32); relation any(u32);
         path(x, y) <-- edge(x, y); path(x, z) <-- edge(x, y), path(y, z); any(x) <-- path(x, _), path(_, _); }
   }
}

mod sp {
   use super::*;
   pub mod ser {
      use super::*;
      ascent! { pub struct P; relation edge(u32, u32, u32); lattice sp(u32, u32, Dual<u32>);
         sp(x, y, Dual(*w)) <-- edge(x, y, w); sp(x, z, Dual(w + l.0)) <-- edge(x, y, w), sp(y, z, ?l), if w + l.0 < 40; }
   }
   pub mod par {
      use super::*;
      ascent_par! { pub struct P; relation edge(u32, u32, u32); lattice sp(u32, u32, Dual<u32>);
         sp(x, y, Dual(*w)) <-- edge(x, y, w); sp(x, z, Dual(w + l.0)) <-- edge(x, y, w), sp(y, z, ?l), if w + l.0 < 40; }
   }
}

fn diamond(rng: &mut Rng) -> Vec<(u32, u32)> {
   let width = 2 + rng.below(2) as u32;
   let layers = 1 + rng.below(2) as u32;
   let node = |l: u32, w: u32| 1 + l * width + w;
   let mut e = vec![];
   for w in 0..width {
      e.push((0, node(0, w)));
   }
   for l in 0..layers.saturating_sub(1) {
      for a in 0..width {
         for b in 0..width {
            e.push((node(l, a), node(l + 1, b)));
         }
      }
   }
   for w in 0..width {
      e.push((node(layers - 1, w), 1 + layers * width));
   }
   e
}

fn pool(n: usize) -> rayon::ThreadPool { rayon::ThreadPoolBuilder::new().num_threads(n).build().unwrap() }

fn fail(msg: String) -> ! {
   println!("ORACLE-VIOLATION {}", msg);
   std::process::exit(3)
}

/// C02 + C05: parallel transitive closure = serial, rows are a set
fn s_tc(rng: &mut Rng, construct_threads: usize, run_threads: usize) {
   let edges = diamond(rng);
   let mut s = tc::ser::P::default();
   s.edge = edges.clone();
   s.run();
   let want: BTreeSet<(u32, u32)> = s.path.iter().cloned().collect();
   let want_any: BTreeSet<(u32,)> = s.any.iter().cloned().collect();
   let mut p = pool(construct_threads).install(tc::par::P::default);
   for e in edges.iter() {
      p.edge.push(*e);
   }
   pool(run_threads).install(|| p.run());
   let rows: Vec<(u32, u32)> = p.path.iter().cloned().collect();
   let got: BTreeSet<(u32, u32)> = rows.iter().cloned().collect();
   if got != want {
      fail(format!("tc: parallel path differs from serial: {:?} vs {:?}", got, want));
   }
   if rows.len() != got.len() {
      fail(format!("tc: parallel path holds {} rows for {} distinct tuples", rows.len(), got.len()));
   }
   let got_any: BTreeSet<(u32,)> = p.any.iter().cloned().collect();
   if got_any != want_any {
      fail(format!("tc: relation any (key-less scan of path) differs: {:?} vs {:?}", got_any, want_any));
   }
}

/// C02: parallel shortest paths (row RwLocks, insertion mutexes) = serial
fn s_sp(rng: &mut Rng, threads: usize) {
   let edges: Vec<(u32, u32, u32)> = diamond(rng).into_iter().map(|(a, b)| (a, b, 1 + rng.below(4) as u32)).collect();
   let mut s = sp::ser::P::default();
   s.edge = edges.clone();
   s.run();
   let want: BTreeSet<(u32, u32, u32)> = s.sp.iter().map(|r| (r.0, r.1, r.2 .0)).collect();
   let mut p = sp::par::P::default();
   for e in edges.iter() {
      p.edge.push(*e);
   }
   pool(threads).install(|| p.run());
   let rows: Vec<(u32, u32, u32)> = p.sp.iter().map(|r| { let r = r.read().unwrap(); (r.0, r.1, r.2 .0) }).collect();
   let got: BTreeSet<(u32, u32, u32)> = rows.iter().cloned().collect();
   if got != want || rows.len() != got.len() {
      fail(format!("sp: parallel lattice differs from serial ({} rows): {:?} vs {:?}", rows.len(), got, want));
   }
}

/// C19: the concurrent index types under real threads
fn s_index(rng: &mut Rng, threads: usize) {
   use ascent::internal::{CRelFullIndex, CRelFullIndexWrite, CRelIndex, CRelIndexWrite, CRelNoIndex, Freezable, RelIndexRead};
   use std::sync::atomic::{AtomicUsize, Ordering};
   let pl = pool(threads);
   let full: CRelFullIndex<(u32,), u32> = pl.install(Default::default);
   let multi: CRelIndex<(u32,), u32> = pl.install(Default::default);
   let mut noidx: CRelNoIndex<u32> = pool(1).install(Default::default);
   let wins = AtomicUsize::new(0);
   let key = rng.below(3) as u32;
   pl.install(|| {
      rayon::scope(|s| {
         for t in 0..threads as u32 + 1 {
            let (full, multi, noidx, wins) = (&full, &multi, &noidx, &wins);
            s.spawn(move |_| {
               if CRelFullIndexWrite::insert_if_not_present(full, &(key,), t) {
                  wins.fetch_add(1, Ordering::Relaxed);
               }
               CRelIndexWrite::index_insert(full, (100 + t,), t);
               CRelIndexWrite::index_insert(multi, (key,), t);
               CRelIndexWrite::index_insert(noidx, (), t);
            });
         }
      })
   });
   if wins.load(Ordering::Relaxed) != 1 {
      fail(format!("index: {} racing insert_if_not_present calls succeeded", wins.load(Ordering::Relaxed)));
   }
   let mut multi = multi;
   multi.freeze();
   noidx.freeze();
   let n = threads + 1;
   let got = multi.index_get(&(key,)).map(|i| i.count()).unwrap_or(0);
   let got2 = noidx.index_get(&()).map(|i| i.count()).unwrap_or(0);
   if got != n || got2 != n {
      fail(format!("index: {} / {} of {} concurrent inserts retained", got, got2, n));
   }
}

/// C20: two program instances constructed and run at the same time on their own threads, under
/// pools of different sizes, as the very first parallel programs of the process (so the first
/// evaluation of the process-wide shard count happens concurrently). Each must equal its serial twin.
/// Run with the data-race detector off: the `static mut` timing counters of ascent::internal are
/// incremented by both instances without synchronisation (noted in DESIGN.md 4/C20; no relation
/// reads them), and Miri would stop at that report before anything else can be observed.
fn s_tenants(rng: &mut Rng) {
   let graphs: Vec<Vec<(u32, u32)>> = (0..2).map(|_| diamond(rng)).collect();
   let sizes = [1usize, 3];
   let handles: Vec<_> = graphs
      .iter()
      .cloned()
      .zip(sizes)
      .map(|(edges, n)| {
         std::thread::spawn(move || {
            let pl = pool(n);
            pl.install(|| {
               let p = tc::par::P::default();
               for e in edges.iter() {
                  p.edge.push(*e);
               }
               let mut p = p;
               p.run();
               p.path.iter().cloned().collect::<Vec<(u32, u32)>>()
            })
         })
      })
      .collect();
   for (h, edges) in handles.into_iter().zip(graphs) {
      let rows = h.join().unwrap_or_else(|_| fail("tenants: an instance panicked".to_string()));
      let mut s = tc::ser::P::default();
      s.edge = edges;
      s.run();
      let want: BTreeSet<(u32, u32)> = s.path.iter().cloned().collect();
      let got: BTreeSet<(u32, u32)> = rows.iter().cloned().collect();
      if got != want || rows.len() != got.len() {
         fail(format!("tenants: instance differs from its solo serial result: {:?} vs {:?}", got, want));
      }
   }
}

/// C20: several instances share ONE small pool: each is `install`ed from its own OS thread, so a
/// worker that waits inside one instance's parallel merge may pick up another instance's whole
/// run() (work stealing). Each must equal its serial twin; nothing may deadlock. Data-race
/// detector off for the same reason as in `tenants`.
fn s_shared_pool(rng: &mut Rng) {
   let pl = std::sync::Arc::new(pool(2));
   // chains of different lengths on top of a diamond: several iterations (and index merges) per run
   let graphs: Vec<Vec<(u32, u32)>> = (0..3u32)
      .map(|i| {
         let mut g = diamond(rng);
         let base = 20 + 10 * i;
         for k in 0..(2 + i) {
            g.push((base + k, base + k + 1));
         }
         g.push((0, base));
         g
      })
      .collect();
   let handles: Vec<_> = graphs
      .iter()
      .cloned()
      .map(|edges| {
         let pl = pl.clone();
         std::thread::spawn(move || {
            let mut last = vec![];
            for _ in 0..2 {
               last = pl.install(|| {
                  let p = tc::par::P::default();
                  for e in edges.iter() {
                     p.edge.push(*e);
                  }
                  let mut p = p;
                  p.run();
                  p.path.iter().cloned().collect::<Vec<(u32, u32)>>()
               });
            }
            last
         })
      })
      .collect();
   for (h, edges) in handles.into_iter().zip(graphs) {
      let rows = h.join().unwrap_or_else(|_| fail("shared-pool: an instance panicked".to_string()));
      let mut s = tc::ser::P::default();
      s.edge = edges;
      s.run();
      let want: BTreeSet<(u32, u32)> = s.path.iter().cloned().collect();
      let got: BTreeSet<(u32, u32)> = rows.iter().cloned().collect();
      if got != want || rows.len() != got.len() {
         fail(format!("shared-pool: instance differs from its solo serial result: {:?} vs {:?}", got, want));
      }
   }
}

/// C20: the very first parallel-program constructions of the process happen at the same instant
/// on threads whose pools differ in size. A spin gate (no OS blocking, so that the threads leave it
/// within a few basic blocks of each other) releases all of them into `P::default()` together, which
/// makes the first evaluations of every lazily initialised process-wide value (e.g. the DashMap
/// shard amount) overlap. Each instance must equal its serial twin. Race detector off as in `tenants`.
fn s_first_use(rng: &mut Rng) {
   use std::sync::atomic::{AtomicUsize, Ordering};
   let sizes = [1usize, 3, 1, 3];
   let graphs: Vec<Vec<(u32, u32)>> = sizes.iter().map(|_| diamond(rng)).collect();
   let gate = std::sync::Arc::new(AtomicUsize::new(0));
   let n = sizes.len();
   let handles: Vec<_> = graphs
      .iter()
      .cloned()
      .zip(sizes)
      .map(|(edges, sz)| {
         let gate = gate.clone();
         std::thread::spawn(move || {
            let pl = pool(sz);
            pl.install(|| {
               gate.fetch_add(1, Ordering::SeqCst);
               while gate.load(Ordering::SeqCst) < n {
                  std::hint::spin_loop();
               }
               let p = tc::par::P::default();
               for e in edges.iter() {
                  p.edge.push(*e);
               }
               let mut p = p;
               p.run();
               p.path.iter().cloned().collect::<Vec<(u32, u32)>>()
            })
         })
      })
      .collect();
   for (h, edges) in handles.into_iter().zip(graphs) {
      let rows = h.join().unwrap_or_else(|_| fail("first-use: an instance panicked".to_string()));
      let mut s = tc::ser::P::default();
      s.edge = edges;
      s.run();
      let want: BTreeSet<(u32, u32)> = s.path.iter().cloned().collect();
      let got: BTreeSet<(u32, u32)> = rows.iter().cloned().collect();
      if got != want || rows.len() != got.len() {
         fail(format!("first-use: instance differs from its solo serial result: {:?} vs {:?}", got, want));
      }
   }
}

fn main() {
   let args: Vec<String> = std::env::args().collect();
   let scenario = args.get(1).map(|s| s.as_str()).unwrap_or("tc");
   let seed: u64 = args.get(2).and_then(|s| s.parse().ok()).unwrap_or(1);
   let mut rng = Rng(seed.wrapping_mul(0x2545F4914F6CDD1D) ^ 0xB);
   match scenario {
      "tc" => s_tc(&mut rng, 3, 3),
      // C20: constructed under a small pool, run under a bigger one
      "tc-pools" => s_tc(&mut rng, 1, 3),
      "sp" => s_sp(&mut rng, 3),
      "index" => s_index(&mut rng, 3),
      "tenants" => s_tenants(&mut rng),
      "shared-pool" => s_shared_pool(&mut rng),
      "first-use" => s_first_use(&mut rng),
      other => {
         eprintln!("unknown scenario {}", other);
         std::process::exit(2)
      },
   }
   println!("OK {} {}", scenario, seed);
}

//! S4: the virtual clock behind `ascent::internal::Instant` under `cfg(ascent_verif)`.
//!
//! Time is a monotone function of the *reading index*: every `Instant::now()` is one reading,
//! advances the clock by the plan's tick and then by every jump scheduled for that reading.
//! No real clock is consulted.

use std::ops::{Add, Sub};
use std::sync::Mutex;
use std::time::Duration;

#[derive(Clone, Debug, Default)]
pub struct ClockPlan {
   /// nanoseconds added at every reading
   pub tick_ns: u64,
   /// `(reading index relative to the moment the plan was installed, nanoseconds)`, sorted
   pub jumps: Vec<(u64, u64)>,
}

struct ClockState {
   /// value of the first reading taken after the current plan was installed (`__start_time` of a
   /// `run_timeout` call) and the reading indices of every `elapsed()` evaluated on that instant,
   /// i.e. of the deadline checks (meaningful when the plan's tick makes instants distinct)
   start_value: Option<u64>,
   deadline_checks: Vec<u64>,
   now_ns: u64,
   /// readings since the plan was installed
   reading: u64,
   /// readings since `reset`
   total_readings: u64,
   plan: ClockPlan,
}

static CLOCK: Mutex<ClockState> =
   Mutex::new(ClockState { start_value: None, deadline_checks: Vec::new(), now_ns: 0, reading: 0, total_readings: 0, plan: ClockPlan { tick_ns: 0, jumps: Vec::new() } });

/// Harness: clock back to 0 with an empty plan (start of an execution).
pub fn reset() {
   let mut c = CLOCK.lock().unwrap();
   c.now_ns = 0;
   c.reading = 0;
   c.total_readings = 0;
   c.start_value = None;
   c.deadline_checks.clear();
   c.plan = ClockPlan::default();
}

/// Harness: install a plan; reading indices in it count from now. Time itself stays monotone.
pub fn set_plan(plan: ClockPlan) {
   let mut c = CLOCK.lock().unwrap();
   c.reading = 0;
   c.start_value = None;
   c.deadline_checks.clear();
   c.plan = plan;
}

/// Harness: number of readings since the current plan was installed.
pub fn readings_since_plan() -> u64 { CLOCK.lock().unwrap().reading }

pub(crate) fn snapshot() -> (u64, u64) {
   let c = CLOCK.lock().unwrap();
   (c.total_readings, c.now_ns)
}

/// Harness: reading indices (since the plan was installed) of the deadline checks seen so far.
pub fn deadline_checks() -> Vec<u64> { CLOCK.lock().unwrap().deadline_checks.clone() }

fn read_for_elapsed(of: u64) -> u64 {
   {
      let mut c = CLOCK.lock().unwrap();
      if c.start_value == Some(of) {
         let idx = c.reading;
         c.deadline_checks.push(idx);
      }
   }
   read()
}

fn read() -> u64 {
   let mut c = CLOCK.lock().unwrap();
   let idx = c.reading;
   c.reading += 1;
   c.total_readings += 1;
   let mut add = c.plan.tick_ns;
   for &(at, ns) in c.plan.jumps.iter() {
      if at == idx {
         add = add.saturating_add(ns);
      }
   }
   c.now_ns = c.now_ns.saturating_add(add);
   if c.start_value.is_none() {
      c.start_value = Some(c.now_ns);
   }
   c.now_ns
}

#[derive(Clone, Copy, Debug, PartialEq, Eq, PartialOrd, Ord, Hash)]
pub struct Instant(u64);

impl Instant {
   pub fn now() -> Instant { Instant(read()) }

   pub fn elapsed(&self) -> Duration { Instant(read_for_elapsed(self.0)) - *self }

   pub fn duration_since(&self, earlier: Instant) -> Duration { Duration::from_nanos(self.0.saturating_sub(earlier.0)) }

   pub fn checked_duration_since(&self, earlier: Instant) -> Option<Duration> {
      self.0.checked_sub(earlier.0).map(Duration::from_nanos)
   }

   pub fn saturating_duration_since(&self, earlier: Instant) -> Duration { self.duration_since(earlier) }

   pub fn as_nanos(&self) -> u64 { self.0 }
}

impl Sub<Instant> for Instant {
   type Output = Duration;
   fn sub(self, rhs: Instant) -> Duration { self.duration_since(rhs) }
}

impl Add<Duration> for Instant {
   type Output = Instant;
   fn add(self, rhs: Duration) -> Instant { Instant(self.0.saturating_add(rhs.as_nanos().min(u64::MAX as u128) as u64)) }
}

impl Sub<Duration> for Instant {
   type Output = Instant;
   fn sub(self, rhs: Duration) -> Instant { Instant(self.0.saturating_sub(rhs.as_nanos().min(u64::MAX as u128) as u64)) }
}

//! Seams S2–S5 of /verif/DESIGN.md: scheduler-aware locks, yield points, virtual clock, knobs.
//!
//! All state here is process-global `std` state. Exactly one shuttle execution runs at a time in a
//! process and all of its tasks share one OS thread, so none of these locks is ever contended and
//! none of them is a scheduling point. Nothing in here reads a real clock or draws from a PRNG.

use std::sync::atomic::{AtomicBool, AtomicU64, AtomicUsize, Ordering};
use std::sync::Mutex as StdMutex;

/// S2: lock types used by generated parallel code and by `ceqrel_ind` under `cfg(ascent_verif)`.
pub mod sync {
   pub use shuttle::sync::{Mutex, MutexGuard, RwLock, RwLockReadGuard, RwLockWriteGuard};
   /// the `__changed` flag of generated parallel code: every access is a scheduling point
   pub mod atomic {
      pub use shuttle::sync::atomic::AtomicBool;
   }
}

pub mod clock;
pub use clock::Instant;

// ------------------------------------------------------------------------------------------------
// S3: yield points
// ------------------------------------------------------------------------------------------------

#[derive(Clone, Copy, Debug, PartialEq, Eq)]
#[repr(usize)]
pub enum Site {
   /// before a dashmap shard / `dashmap::RwLock` is acquired for reading
   DashShared = 0,
   /// before a dashmap shard / `dashmap::RwLock` is acquired for writing
   DashExclusive,
   /// entry of `boxcar::Vec::push`
   BoxcarPush,
   /// inside `boxcar::Vec::push`, after the index was reserved and before the slot is written
   BoxcarReserved,
   /// inside `boxcar::Vec::push`, after the slot became active and before `len` is bumped
   BoxcarActive,
   /// a contended simulated lock is being spun on (should never fire on correct code)
   DashContended,
   /// explicit points placed by harness scenarios
   Harness,
   /// right after a dashmap shard / `dashmap::RwLock` was acquired for reading: the lock is *held*
   /// while other tasks run, so try-lock paths and contended paths become reachable
   DashHeldShared,
   /// right after a dashmap shard / `dashmap::RwLock` was acquired for writing
   DashHeldExclusive,
}
pub const N_SITES: usize = 9;
pub const SITE_NAMES: [&str; N_SITES] = [
   "dash_shared",
   "dash_exclusive",
   "boxcar_push",
   "boxcar_reserved",
   "boxcar_active",
   "dash_contended",
   "harness",
   "dash_held_shared",
   "dash_held_exclusive",
];

static ACTIVE: AtomicBool = AtomicBool::new(false);
static SITE_MASK: AtomicUsize = AtomicUsize::new(usize::MAX);
static SITE_COUNTS: [AtomicU64; N_SITES] = [const { AtomicU64::new(0) }; N_SITES];
static EVENT_SEQ: AtomicU64 = AtomicU64::new(0);

/// True while a simulated execution is running in this process.
#[inline]
pub fn active() -> bool { ACTIVE.load(Ordering::Relaxed) }

/// Global event sequence number (total order of simulator-visible events; used to stamp
/// invoke/return events of recorded histories).
#[inline]
pub fn event_seq() -> u64 { EVENT_SEQ.fetch_add(1, Ordering::Relaxed) }

/// A point at which the simulator may deschedule the running task.
#[inline]
pub fn point(site: Site) {
   if !ACTIVE.load(Ordering::Relaxed) {
      return;
   }
   SITE_COUNTS[site as usize].fetch_add(1, Ordering::Relaxed);
   if SITE_MASK.load(Ordering::Relaxed) & (1 << site as usize) != 0 {
      // plain context switch (not a `yield_now`, which priority schedulers treat specially)
      shuttle::thread::sleep(std::time::Duration::ZERO);
   }
}

/// Called by a simulated lock that found itself contended: tells the scheduler the task cannot
/// make progress right now.
pub fn contended() {
   if !ACTIVE.load(Ordering::Relaxed) {
      std::thread::yield_now();
      return;
   }
   SITE_COUNTS[Site::DashContended as usize].fetch_add(1, Ordering::Relaxed);
   shuttle::thread::yield_now();
}

// ------------------------------------------------------------------------------------------------
// probes ("this rare condition was hit")
// ------------------------------------------------------------------------------------------------

#[derive(Clone, Copy, Debug)]
#[repr(usize)]
pub enum Probe {
   /// `insert_if_not_present` returned false although the caller's pre-checks passed
   LostInsertRace = 0,
   /// shards override consulted
   ShardsOverride,
   /// virtual deadline struck
   DeadlineStruck,
   /// buggify: len_estimate perturbed
   LenNoise,
   /// buggify: is_empty forced to the conservative `false`
   EmptyMasked,
}
pub const N_PROBES: usize = 5;
pub const PROBE_NAMES: [&str; N_PROBES] =
   ["lost_insert_race", "shards_override", "deadline_struck", "len_noise", "empty_masked"];
static PROBE_COUNTS: [AtomicU64; N_PROBES] = [const { AtomicU64::new(0) }; N_PROBES];

#[inline]
pub fn probe(p: Probe) { PROBE_COUNTS[p as usize].fetch_add(1, Ordering::Relaxed); }

// ------------------------------------------------------------------------------------------------
// S5: knobs
// ------------------------------------------------------------------------------------------------

static SHARDS_OVERRIDE: AtomicUsize = AtomicUsize::new(0);
static LEN_NOISE: AtomicBool = AtomicBool::new(false);
static EMPTY_MASK: AtomicBool = AtomicBool::new(false);
static NOISE_STATE: AtomicU64 = AtomicU64::new(0x9E3779B97F4A7C15);

/// DashMap shard amount forced by the harness (must be a power of two); `None` = the real,
/// process-wide `Lazy` decides.
#[inline]
pub fn shards_override() -> Option<usize> {
   match SHARDS_OVERRIDE.load(Ordering::Relaxed) {
      0 => None,
      n => {
         probe(Probe::ShardsOverride);
         Some(n)
      },
   }
}

/// Buggify: value added (wrapping) to every `len_estimate()` consulted by the simple-join
/// heuristic. 0 unless enabled for this run. Derived from a counter-based hash, not from the
/// scheduler PRNG, so it neither perturbs nor depends on the schedule.
pub fn len_noise() -> usize {
   if !LEN_NOISE.load(Ordering::Relaxed) {
      return 0;
   }
   probe(Probe::LenNoise);
   let x = NOISE_STATE.fetch_add(0x9E3779B97F4A7C15, Ordering::Relaxed);
   let mut z = x;
   z = (z ^ (z >> 30)).wrapping_mul(0xBF58476D1CE4E5B9);
   z = (z ^ (z >> 27)).wrapping_mul(0x94D049BB133111EB);
   z ^= z >> 31;
   (z % 64) as usize
}

/// Buggify: `is_empty()` results are and-ed with this; `false` forces the conservative answer
/// the `RelIndexRead::is_empty` contract explicitly allows.
pub fn empty_mask() -> bool {
   if EMPTY_MASK.load(Ordering::Relaxed) {
      probe(Probe::EmptyMasked);
      false
   } else {
      true
   }
}

#[derive(Clone, Debug, Default)]
pub struct Counters {
   pub sites: [u64; N_SITES],
   pub probes: [u64; N_PROBES],
   pub clock_readings: u64,
   pub clock_now_ns: u64,
}

#[derive(Clone, Debug)]
pub struct RunConfig {
   pub site_mask: usize,
   pub shards_override: Option<usize>,
   pub len_noise: bool,
   pub empty_mask: bool,
   pub noise_seed: u64,
}

impl Default for RunConfig {
   fn default() -> Self {
      RunConfig { site_mask: usize::MAX, shards_override: None, len_noise: false, empty_mask: false, noise_seed: 1 }
   }
}

static GUARD: StdMutex<()> = StdMutex::new(());

/// Harness: start of a simulated execution.
pub fn begin(cfg: &RunConfig) {
   let _g = GUARD.lock().unwrap();
   SITE_MASK.store(cfg.site_mask, Ordering::Relaxed);
   SHARDS_OVERRIDE.store(cfg.shards_override.unwrap_or(0), Ordering::Relaxed);
   LEN_NOISE.store(cfg.len_noise, Ordering::Relaxed);
   EMPTY_MASK.store(cfg.empty_mask, Ordering::Relaxed);
   NOISE_STATE.store(cfg.noise_seed | 1, Ordering::Relaxed);
   for c in SITE_COUNTS.iter() {
      c.store(0, Ordering::Relaxed);
   }
   for c in PROBE_COUNTS.iter() {
      c.store(0, Ordering::Relaxed);
   }
   EVENT_SEQ.store(0, Ordering::Relaxed);
   ACTIVE.store(true, Ordering::Relaxed);
}

/// Harness: end of a simulated execution (also after a failed one); returns what was counted.
pub fn end() -> Counters {
   let _g = GUARD.lock().unwrap();
   ACTIVE.store(false, Ordering::Relaxed);
   SHARDS_OVERRIDE.store(0, Ordering::Relaxed);
   LEN_NOISE.store(false, Ordering::Relaxed);
   EMPTY_MASK.store(false, Ordering::Relaxed);
   let mut c = Counters::default();
   for (i, s) in SITE_COUNTS.iter().enumerate() {
      c.sites[i] = s.load(Ordering::Relaxed);
   }
   for (i, s) in PROBE_COUNTS.iter().enumerate() {
      c.probes[i] = s.load(Ordering::Relaxed);
   }
   let (r, n) = clock::snapshot();
   c.clock_readings = r;
   c.clock_now_ns = n;
   c
}

/// Harness: toggle knobs in the middle of an execution (between operations of a history).
pub fn set_site_mask(mask: usize) { SITE_MASK.store(mask, Ordering::Relaxed); }
pub fn set_shards_override(n: Option<usize>) { SHARDS_OVERRIDE.store(n.unwrap_or(0), Ordering::Relaxed); }

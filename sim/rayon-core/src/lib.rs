//! Simulated `rayon-core` (see /verif/DESIGN.md §2.1, seam S1).
//!
//! Same public surface as rayon-core 1.13 as far as rayon 1.12, dashmap, hashbrown and ascent use
//! it. Every "worker thread" is a shuttle task, exactly one runs at a time, and every decision
//! rayon's work-stealing would make (is this half of a `join` stolen? does a scope job migrate?)
//! is drawn from the shuttle scheduler's PRNG (`Scheduler::next_u64`), so that the harness'
//! scheduler owns it, records it and can replay it.
//!
//! Model (spawn-per-steal): a pool has `n` worker slots. `join_context(a, b)` on a worker asks the
//! PRNG whether `b` is stolen; if yes and a slot is free, `b` runs in a fresh shuttle task that
//! owns the slot (`current_thread_index()` = slot, `migrated()` = true) while `a` runs in place and
//! the parent then blocks on a shuttle join; otherwise `a` then `b` run in place.
#![allow(clippy::type_complexity)]

use std::any::Any;
use std::cell::RefCell;
use std::collections::VecDeque;
use std::fmt;
use std::marker::PhantomData;
use std::sync::atomic::{AtomicU64, Ordering};
use std::sync::{Arc, Mutex as StdMutex};

use shuttle::rand::RngCore;
use shuttle::thread::{self, JoinHandle, Thread};

pub mod sim;

use sim::{stat, Stat};

// ------------------------------------------------------------------------------------------------
// pools and worker context
// ------------------------------------------------------------------------------------------------

pub(crate) struct Pool {
   pub(crate) id: u64,
   pub(crate) n: usize,
   state: StdMutex<PoolState>,
}

struct PoolState {
   busy: Vec<bool>,
   waiters: VecDeque<Thread>,
}

impl Pool {
   pub(crate) fn new(id: u64, n: usize) -> Arc<Pool> {
      let n = n.max(1);
      Arc::new(Pool { id, n, state: StdMutex::new(PoolState { busy: vec![false; n], waiters: VecDeque::new() }) })
   }

   fn has_free(&self) -> bool { self.state.lock().unwrap().busy.iter().any(|b| !*b) }

   fn try_acquire(&self) -> Option<usize> {
      let mut st = self.state.lock().unwrap();
      let idx = st.busy.iter().position(|b| !*b)?;
      st.busy[idx] = true;
      Some(idx)
   }

   /// Blocks (as a shuttle task) until a worker slot of this pool is free.
   fn acquire(&self) -> usize {
      loop {
         {
            let mut st = self.state.lock().unwrap();
            if let Some(idx) = st.busy.iter().position(|b| !*b) {
               st.busy[idx] = true;
               return idx;
            }
            st.waiters.push_back(thread::current());
         }
         stat(Stat::PoolWait);
         thread::park();
      }
   }

   fn release(&self, idx: usize) {
      // wake every waiter (they re-check and re-queue): a waiter may be queued more than once after
      // a spurious wake-up, so waking only the head could hand the wake-up to a stale entry
      let waiters: Vec<Thread> = {
         let mut st = self.state.lock().unwrap();
         assert!(st.busy[idx], "sim rayon-core: releasing a free slot");
         st.busy[idx] = false;
         st.waiters.drain(..).collect()
      };
      for w in waiters {
         w.unpark();
      }
   }
}

#[derive(Clone)]
struct Ctx {
   pool: Arc<Pool>,
   slot: usize,
}

shuttle::thread_local! {
   static CTX: RefCell<Option<Ctx>> = RefCell::new(None);
}

fn current_ctx() -> Option<Ctx> { CTX.with(|c| c.borrow().clone()) }
fn set_ctx(ctx: Option<Ctx>) -> Option<Ctx> { CTX.with(|c| std::mem::replace(&mut *c.borrow_mut(), ctx)) }

/// Runs `op` on a worker of `pool`: in place if the caller already is one, otherwise the caller
/// occupies a slot of that pool for the duration (a real caller would block while a pool thread
/// runs `op`; no concurrency exists between the two, so one task plays both).
fn in_pool<R>(pool: &Arc<Pool>, op: impl FnOnce(&Ctx) -> R) -> R {
   if let Some(ctx) = current_ctx() {
      if ctx.pool.id == pool.id {
         return op(&ctx);
      }
   }
   let slot = pool.acquire();
   let ctx = Ctx { pool: pool.clone(), slot };
   let saved = set_ctx(Some(ctx.clone()));
   struct Restore<'a>(&'a Arc<Pool>, usize, Option<Option<Ctx>>);
   impl Drop for Restore<'_> {
      fn drop(&mut self) {
         set_ctx(self.2.take().unwrap());
         self.0.release(self.1);
      }
   }
   let _restore = Restore(pool, slot, Some(saved));
   op(&ctx)
}

fn in_worker<R>(op: impl FnOnce(&Ctx) -> R) -> R {
   match current_ctx() {
      Some(ctx) => op(&ctx),
      None => {
         let pool = sim::global_pool();
         in_pool(&pool, op)
      },
   }
}

fn coin_steal() -> bool {
   let permille = sim::steal_permille();
   if permille == 0 {
      return false;
   }
   if permille >= 1000 {
      return true;
   }
   // one draw from the scheduler-owned PRNG per decision (recorded, replayable)
   let x = shuttle::rand::thread_rng().next_u64();
   // a draw of 0 means "not stolen" (minimisation shrinks draws towards 0)
   (x % 1000) >= 1000 - permille as u64
}

/// Decides whether a piece of work migrates to another worker, and if so claims that worker.
fn try_steal(ctx: &Ctx) -> Option<usize> {
   if ctx.pool.n <= 1 || !ctx.pool.has_free() {
      stat(Stat::NoSlot);
      return None;
   }
   if !coin_steal() {
      stat(Stat::NotStolen);
      return None;
   }
   let slot = ctx.pool.try_acquire();
   if slot.is_some() {
      stat(Stat::Stolen);
   }
   slot
}

fn spawn_on_slot<'a, F: FnOnce() + Send + 'a>(pool: Arc<Pool>, slot: usize, f: F) -> JoinHandle<()> {
   let f: Box<dyn FnOnce() + Send + 'a> = Box::new(f);
   // SAFETY: as in rayon itself, the spawner never returns (nor unwinds past the frame owning the
   // borrowed data in a way that lets the child run again: a panic ends the whole shuttle
   // execution) before the child has been joined.
   let f: Box<dyn FnOnce() + Send + 'static> = unsafe { std::mem::transmute(f) };
   thread::spawn(move || {
      set_ctx(Some(Ctx { pool: pool.clone(), slot }));
      f();
      set_ctx(None);
      pool.release(slot);
   })
}

fn join_child(h: JoinHandle<()>) {
   if let Err(e) = h.join() {
      std::panic::resume_unwind(e);
   }
}

struct SendPtr<T>(*mut T);
unsafe impl<T> Send for SendPtr<T> {}

// ------------------------------------------------------------------------------------------------
// join
// ------------------------------------------------------------------------------------------------

/// Provides the calling context to a closure called by `join_context`.
#[derive(Debug)]
pub struct FnContext {
   migrated: bool,
   _marker: PhantomData<*mut ()>,
}

impl FnContext {
   #[inline]
   fn new(migrated: bool) -> Self { FnContext { migrated, _marker: PhantomData } }

   /// Returns `true` if the closure was called from a different thread than it was provided from.
   #[inline]
   pub fn migrated(&self) -> bool { self.migrated }
}

pub fn join<A, B, RA, RB>(oper_a: A, oper_b: B) -> (RA, RB)
where
   A: FnOnce() -> RA + Send,
   B: FnOnce() -> RB + Send,
   RA: Send,
   RB: Send,
{
   join_context(|_| oper_a(), |_| oper_b())
}

pub fn join_context<A, B, RA, RB>(oper_a: A, oper_b: B) -> (RA, RB)
where
   A: FnOnce(FnContext) -> RA + Send,
   B: FnOnce(FnContext) -> RB + Send,
   RA: Send,
   RB: Send,
{
   in_worker(|ctx| {
      stat(Stat::Join);
      if let Some(slot) = try_steal(ctx) {
         let mut rb: Option<RB> = None;
         let rb_ptr = SendPtr(&mut rb as *mut Option<RB>);
         let handle = spawn_on_slot(ctx.pool.clone(), slot, move || {
            let rb_ptr = rb_ptr;
            let r = oper_b(FnContext::new(true));
            unsafe { *rb_ptr.0 = Some(r) };
         });
         let ra = oper_a(FnContext::new(false));
         join_child(handle);
         (ra, rb.expect("sim rayon-core: stolen half did not produce a result"))
      } else {
         let ra = oper_a(FnContext::new(false));
         let rb = oper_b(FnContext::new(false));
         (ra, rb)
      }
   })
}

// ------------------------------------------------------------------------------------------------
// scope
// ------------------------------------------------------------------------------------------------

type Job = Box<dyn FnOnce() + Send + 'static>;

struct ScopeInner {
   pending: StdMutex<VecDeque<Job>>,
   handles: StdMutex<Vec<JoinHandle<()>>>,
   fifo: bool,
}

impl ScopeInner {
   fn new(fifo: bool) -> Self {
      ScopeInner { pending: StdMutex::new(VecDeque::new()), handles: StdMutex::new(Vec::new()), fifo }
   }

   fn submit(&self, job: Job) {
      stat(Stat::ScopeSpawn);
      if let Some(ctx) = current_ctx() {
         if let Some(slot) = try_steal(&ctx) {
            let h = spawn_on_slot(ctx.pool.clone(), slot, job);
            self.handles.lock().unwrap().push(h);
            return;
         }
      }
      self.pending.lock().unwrap().push_back(job);
   }

   /// The scope owner drains its local queue (each job may still be stolen when it is popped) and
   /// waits for every migrated job; jobs may add further jobs.
   fn complete(&self) {
      loop {
         let job = {
            let mut p = self.pending.lock().unwrap();
            if self.fifo { p.pop_front() } else { p.pop_back() }
         };
         if let Some(job) = job {
            if let Some(ctx) = current_ctx() {
               if let Some(slot) = try_steal(&ctx) {
                  let h = spawn_on_slot(ctx.pool.clone(), slot, job);
                  self.handles.lock().unwrap().push(h);
                  continue;
               }
            }
            job();
            continue;
         }
         let h = self.handles.lock().unwrap().pop();
         match h {
            Some(h) => join_child(h),
            None => break,
         }
      }
   }
}

pub struct Scope<'scope> {
   inner: ScopeInner,
   marker: PhantomData<Box<dyn FnOnce(&Scope<'scope>) + Send + Sync + 'scope>>,
}

pub struct ScopeFifo<'scope> {
   inner: ScopeInner,
   marker: PhantomData<Box<dyn FnOnce(&ScopeFifo<'scope>) + Send + Sync + 'scope>>,
}

unsafe impl Sync for Scope<'_> {}
unsafe impl Send for Scope<'_> {}
unsafe impl Sync for ScopeFifo<'_> {}
unsafe impl Send for ScopeFifo<'_> {}

impl fmt::Debug for Scope<'_> {
   fn fmt(&self, f: &mut fmt::Formatter<'_>) -> fmt::Result { f.write_str("Scope(sim)") }
}
impl fmt::Debug for ScopeFifo<'_> {
   fn fmt(&self, f: &mut fmt::Formatter<'_>) -> fmt::Result { f.write_str("ScopeFifo(sim)") }
}

impl<'scope> Scope<'scope> {
   pub fn spawn<BODY>(&self, body: BODY)
   where BODY: FnOnce(&Scope<'scope>) + Send + 'scope {
      let sp = SendPtr(self as *const Scope<'scope> as *mut Scope<'scope>);
      let job: Box<dyn FnOnce() + Send + 'scope> = Box::new(move || {
         let sp = sp;
         body(unsafe { &*sp.0 })
      });
      // SAFETY: `scope` does not return before every job has run.
      let job: Job = unsafe { std::mem::transmute(job) };
      self.inner.submit(job);
   }

   pub fn spawn_broadcast<BODY>(&self, _body: BODY)
   where BODY: Fn(&Scope<'scope>, BroadcastContext<'_>) + Send + Sync + 'scope {
      unimplemented!("sim rayon-core: broadcast is not modelled")
   }
}

impl<'scope> ScopeFifo<'scope> {
   pub fn spawn_fifo<BODY>(&self, body: BODY)
   where BODY: FnOnce(&ScopeFifo<'scope>) + Send + 'scope {
      let sp = SendPtr(self as *const ScopeFifo<'scope> as *mut ScopeFifo<'scope>);
      let job: Box<dyn FnOnce() + Send + 'scope> = Box::new(move || {
         let sp = sp;
         body(unsafe { &*sp.0 })
      });
      let job: Job = unsafe { std::mem::transmute(job) };
      self.inner.submit(job);
   }

   pub fn spawn_broadcast<BODY>(&self, _body: BODY)
   where BODY: Fn(&ScopeFifo<'scope>, BroadcastContext<'_>) + Send + Sync + 'scope {
      unimplemented!("sim rayon-core: broadcast is not modelled")
   }
}

pub fn scope<'scope, OP, R>(op: OP) -> R
where
   OP: FnOnce(&Scope<'scope>) -> R + Send,
   R: Send,
{
   in_worker(|_| in_place_scope(op))
}

pub fn scope_fifo<'scope, OP, R>(op: OP) -> R
where
   OP: FnOnce(&ScopeFifo<'scope>) -> R + Send,
   R: Send,
{
   in_worker(|_| in_place_scope_fifo(op))
}

pub fn in_place_scope<'scope, OP, R>(op: OP) -> R
where OP: FnOnce(&Scope<'scope>) -> R {
   stat(Stat::Scope);
   let s = Scope { inner: ScopeInner::new(false), marker: PhantomData };
   let r = op(&s);
   s.inner.complete();
   r
}

pub fn in_place_scope_fifo<'scope, OP, R>(op: OP) -> R
where OP: FnOnce(&ScopeFifo<'scope>) -> R {
   stat(Stat::Scope);
   let s = ScopeFifo { inner: ScopeInner::new(true), marker: PhantomData };
   let r = op(&s);
   s.inner.complete();
   r
}

// ------------------------------------------------------------------------------------------------
// free-standing spawn / broadcast / yield (not used by ascent; minimal)
// ------------------------------------------------------------------------------------------------

pub fn spawn<F>(func: F)
where F: FnOnce() + Send + 'static {
   let pool = current_ctx().map(|c| c.pool).unwrap_or_else(sim::global_pool);
   thread::spawn(move || in_pool(&pool, |_| func()));
}

pub fn spawn_fifo<F>(func: F)
where F: FnOnce() + Send + 'static {
   spawn(func)
}

pub struct BroadcastContext<'a> {
   _marker: PhantomData<&'a mut dyn Fn()>,
}

impl BroadcastContext<'_> {
   pub fn index(&self) -> usize { 0 }
   pub fn num_threads(&self) -> usize { 1 }
}

impl fmt::Debug for BroadcastContext<'_> {
   fn fmt(&self, f: &mut fmt::Formatter<'_>) -> fmt::Result { f.write_str("BroadcastContext(sim)") }
}

pub fn broadcast<OP, R>(_op: OP) -> Vec<R>
where
   OP: Fn(BroadcastContext<'_>) -> R + Sync,
   R: Send,
{
   unimplemented!("sim rayon-core: broadcast is not modelled")
}

pub fn spawn_broadcast<OP>(_op: OP)
where OP: Fn(BroadcastContext<'_>) + Send + Sync + 'static {
   unimplemented!("sim rayon-core: broadcast is not modelled")
}

#[derive(Clone, Copy, Debug, PartialEq, Eq)]
pub enum Yield {
   Executed,
   Idle,
}

pub fn yield_now() -> Option<Yield> {
   current_ctx()?;
   thread::yield_now();
   Some(Yield::Idle)
}

pub fn yield_local() -> Option<Yield> {
   current_ctx()?;
   Some(Yield::Idle)
}

// ------------------------------------------------------------------------------------------------
// thread-pool API
// ------------------------------------------------------------------------------------------------

pub fn max_num_threads() -> usize { 1 << 16 }

/// Number of threads of the current pool; outside any pool, of the global pool.
pub fn current_num_threads() -> usize {
   match current_ctx() {
      Some(ctx) => ctx.pool.n,
      None => sim::global_pool().n,
   }
}

/// Index of the current worker in its pool, `None` outside any pool.
pub fn current_thread_index() -> Option<usize> { current_ctx().map(|c| c.slot) }

pub fn current_thread_has_pending_tasks() -> Option<bool> { current_ctx().map(|_| false) }

pub struct ThreadPoolBuildError {
   msg: &'static str,
}

impl fmt::Debug for ThreadPoolBuildError {
   fn fmt(&self, f: &mut fmt::Formatter<'_>) -> fmt::Result { write!(f, "ThreadPoolBuildError({})", self.msg) }
}
impl fmt::Display for ThreadPoolBuildError {
   fn fmt(&self, f: &mut fmt::Formatter<'_>) -> fmt::Result { f.write_str(self.msg) }
}
impl std::error::Error for ThreadPoolBuildError {}

pub struct ThreadBuilder {
   index: usize,
}

impl ThreadBuilder {
   pub fn index(&self) -> usize { self.index }
   pub fn name(&self) -> Option<&str> { None }
   pub fn stack_size(&self) -> Option<usize> { None }
   pub fn run(self) {}
}

impl fmt::Debug for ThreadBuilder {
   fn fmt(&self, f: &mut fmt::Formatter<'_>) -> fmt::Result { write!(f, "ThreadBuilder({})", self.index) }
}

#[derive(Default)]
pub struct ThreadPoolBuilder {
   num_threads: usize,
}

impl fmt::Debug for ThreadPoolBuilder {
   fn fmt(&self, f: &mut fmt::Formatter<'_>) -> fmt::Result {
      write!(f, "ThreadPoolBuilder {{ num_threads: {} }}", self.num_threads)
   }
}

impl ThreadPoolBuilder {
   pub fn new() -> Self { Self::default() }

   pub fn num_threads(mut self, num_threads: usize) -> Self {
      self.num_threads = num_threads;
      self
   }

   pub fn thread_name<F>(self, _closure: F) -> Self
   where F: FnMut(usize) -> String + 'static {
      self
   }

   pub fn stack_size(self, _stack_size: usize) -> Self { self }

   pub fn panic_handler<H>(self, _h: H) -> Self
   where H: Fn(Box<dyn Any + Send>) + Send + Sync + 'static {
      self
   }

   pub fn start_handler<H>(self, _h: H) -> Self
   where H: Fn(usize) + Send + Sync + 'static {
      self
   }

   pub fn exit_handler<H>(self, _h: H) -> Self
   where H: Fn(usize) + Send + Sync + 'static {
      self
   }

   pub fn use_current_thread(self) -> Self { self }

   #[allow(deprecated)]
   pub fn breadth_first(self) -> Self { self }

   fn effective_threads(&self) -> usize {
      if self.num_threads == 0 { sim::default_threads() } else { self.num_threads }
   }

   pub fn build(self) -> Result<ThreadPool, ThreadPoolBuildError> {
      stat(Stat::PoolBuilt);
      Ok(ThreadPool { pool: Pool::new(sim::fresh_pool_id(), self.effective_threads()) })
   }

   pub fn build_global(self) -> Result<(), ThreadPoolBuildError> {
      if sim::init_global_pool(self.effective_threads()) {
         Ok(())
      } else {
         Err(ThreadPoolBuildError { msg: "The global thread pool has already been initialized." })
      }
   }
}

pub struct ThreadPool {
   pool: Arc<Pool>,
}

impl fmt::Debug for ThreadPool {
   fn fmt(&self, f: &mut fmt::Formatter<'_>) -> fmt::Result {
      write!(f, "ThreadPool {{ num_threads: {}, id: {} }}", self.pool.n, self.pool.id)
   }
}

impl ThreadPool {
   pub fn install<OP, R>(&self, op: OP) -> R
   where
      OP: FnOnce() -> R + Send,
      R: Send,
   {
      stat(Stat::Install);
      in_pool(&self.pool, |_| op())
   }

   pub fn current_num_threads(&self) -> usize { self.pool.n }

   pub fn current_thread_index(&self) -> Option<usize> {
      let ctx = current_ctx()?;
      if ctx.pool.id == self.pool.id { Some(ctx.slot) } else { None }
   }

   pub fn current_thread_has_pending_tasks(&self) -> Option<bool> { self.current_thread_index().map(|_| false) }

   pub fn join<A, B, RA, RB>(&self, oper_a: A, oper_b: B) -> (RA, RB)
   where
      A: FnOnce() -> RA + Send,
      B: FnOnce() -> RB + Send,
      RA: Send,
      RB: Send,
   {
      self.install(|| join(oper_a, oper_b))
   }

   pub fn scope<'scope, OP, R>(&self, op: OP) -> R
   where
      OP: FnOnce(&Scope<'scope>) -> R + Send,
      R: Send,
   {
      self.install(|| scope(op))
   }

   pub fn scope_fifo<'scope, OP, R>(&self, op: OP) -> R
   where
      OP: FnOnce(&ScopeFifo<'scope>) -> R + Send,
      R: Send,
   {
      self.install(|| scope_fifo(op))
   }

   pub fn in_place_scope<'scope, OP, R>(&self, op: OP) -> R
   where OP: FnOnce(&Scope<'scope>) -> R {
      in_place_scope(op)
   }

   pub fn in_place_scope_fifo<'scope, OP, R>(&self, op: OP) -> R
   where OP: FnOnce(&ScopeFifo<'scope>) -> R {
      in_place_scope_fifo(op)
   }

   pub fn spawn<OP>(&self, op: OP)
   where OP: FnOnce() + Send + 'static {
      let pool = self.pool.clone();
      thread::spawn(move || in_pool(&pool, |_| op()));
   }

   pub fn spawn_fifo<OP>(&self, op: OP)
   where OP: FnOnce() + Send + 'static {
      self.spawn(op)
   }

   pub fn yield_now(&self) -> Option<Yield> { self.current_thread_index().map(|_| Yield::Idle) }
   pub fn yield_local(&self) -> Option<Yield> { self.current_thread_index().map(|_| Yield::Idle) }
}

static POOL_IDS: AtomicU64 = AtomicU64::new(1);
pub(crate) fn next_raw_pool_id() -> u64 { POOL_IDS.fetch_add(1, Ordering::Relaxed) }

//! Control surface of the simulated pool, used only by the /verif harness.
//!
//! Process-global (std) state, reset by the harness at the start of every shuttle execution;
//! only one shuttle execution runs at a time in a process and all of its tasks share one OS
//! thread, so these locks are never contended.

use std::sync::{Arc, Mutex};

use crate::Pool;

#[derive(Clone, Copy, Debug)]
pub struct SimConfig {
   /// size of the global pool (used by code that is not inside any `install`)
   pub global_threads: usize,
   /// probability (in 1/1000) that a stealable piece of work migrates when a worker slot is free
   pub steal_permille: u32,
}

impl Default for SimConfig {
   fn default() -> Self { SimConfig { global_threads: 4, steal_permille: 500 } }
}

#[derive(Clone, Copy, Debug)]
#[repr(usize)]
pub enum Stat {
   Join = 0,
   Stolen,
   NotStolen,
   NoSlot,
   Scope,
   ScopeSpawn,
   Install,
   PoolBuilt,
   PoolWait,
}
pub const N_STATS: usize = 9;
pub const STAT_NAMES: [&str; N_STATS] =
   ["join", "stolen", "not_stolen", "no_free_slot", "scope", "scope_spawn", "install", "pool_built", "pool_wait"];

struct State {
   cfg: SimConfig,
   global: Option<Arc<Pool>>,
   stats: [u64; N_STATS],
}

static STATE: Mutex<State> =
   Mutex::new(State { cfg: SimConfig { global_threads: 4, steal_permille: 500 }, global: None, stats: [0; N_STATS] });

/// Must be called at the beginning of every execution (inside or outside the shuttle closure).
pub fn begin_execution(cfg: SimConfig) {
   let mut st = STATE.lock().unwrap();
   st.cfg = cfg;
   st.global = None;
   st.stats = [0; N_STATS];
}

/// Change the steal probability in the middle of an execution (e.g. per operation of a history).
pub fn set_steal_permille(p: u32) { STATE.lock().unwrap().cfg.steal_permille = p; }

pub fn take_stats() -> [u64; N_STATS] {
   let mut st = STATE.lock().unwrap();
   std::mem::replace(&mut st.stats, [0; N_STATS])
}

pub(crate) fn stat(s: Stat) { STATE.lock().unwrap().stats[s as usize] += 1; }

pub(crate) fn steal_permille() -> u32 { STATE.lock().unwrap().cfg.steal_permille }

pub(crate) fn default_threads() -> usize { STATE.lock().unwrap().cfg.global_threads.max(1) }

pub(crate) fn fresh_pool_id() -> u64 { crate::next_raw_pool_id() }

pub(crate) fn global_pool() -> Arc<Pool> {
   let mut st = STATE.lock().unwrap();
   if st.global.is_none() {
      let n = st.cfg.global_threads.max(1);
      st.global = Some(Pool::new(crate::next_raw_pool_id(), n));
   }
   st.global.clone().unwrap()
}

pub(crate) fn init_global_pool(n: usize) -> bool {
   let mut st = STATE.lock().unwrap();
   if st.global.is_some() {
      return false;
   }
   st.cfg.global_threads = n.max(1);
   st.global = Some(Pool::new(crate::next_raw_pool_id(), n));
   true
}

use crate::setref::multiple::RefMulti;
use crate::DashSet;
use core::hash::{BuildHasher, Hash};
use rayon::iter::plumbing::UnindexedConsumer;
use rayon::iter::{FromParallelIterator, IntoParallelIterator, ParallelExtend, ParallelIterator};
use std::collections::hash_map::RandomState;

impl<K, S> ParallelExtend<K> for DashSet<K, S>
where
    K: Send + Sync + Eq + Hash,
    S: Send + Sync + Clone + BuildHasher,
{
    fn par_extend<I>(&mut self, par_iter: I)
    where
        I: IntoParallelIterator<Item = K>,
    {
        (&*self).par_extend(par_iter);
    }
}

// Since we don't actually need mutability, we can implement this on a
// reference, similar to `io::Write for &File`.
impl<K, S> ParallelExtend<K> for &'_ DashSet<K, S>
where
    K: Send + Sync + Eq + Hash,
    S: Send + Sync + Clone + BuildHasher,
{
    fn par_extend<I>(&mut self, par_iter: I)
    where
        I: IntoParallelIterator<Item = K>,
    {
        let &mut set = self;
        par_iter.into_par_iter().for_each(move |key| {
            set.insert(key);
        });
    }
}

impl<K, S> FromParallelIterator<K> for DashSet<K, S>
where
    K: Send + Sync + Eq + Hash,
    S: Send + Sync + Clone + Default + BuildHasher,
{
    fn from_par_iter<I>(par_iter: I) -> Self
    where
        I: IntoParallelIterator<Item = K>,
    {
        let set = Self::default();
        (&set).par_extend(par_iter);
        set
    }
}

impl<K, S> IntoParallelIterator for DashSet<K, S>
where
    K: Send + Eq + Hash,
    S: Send + Clone + BuildHasher,
{
    type Iter = OwningIter<K, S>;
    type Item = K;

    fn into_par_iter(self) -> Self::Iter {
        OwningIter {
            inner: self.inner.into_par_iter(),
        }
    }
}

pub struct OwningIter<K, S = RandomState> {
    inner: super::map::OwningIter<K, (), S>,
}

impl<K, S> ParallelIterator for OwningIter<K, S>
where
    K: Send + Eq + Hash,
    S: Send + Clone + BuildHasher,
{
    type Item = K;

    fn drive_unindexed<C>(self, consumer: C) -> C::Result
    where
        C: UnindexedConsumer<Self::Item>,
    {
        self.inner.map(|(k, _)| k).drive_unindexed(consumer)
    }
}

// This impl also enables `IntoParallelRefIterator::par_iter`
impl<'a, K, S> IntoParallelIterator for &'a DashSet<K, S>
where
    K: Send + Sync + Eq + Hash,
    S: Send + Sync + Clone + BuildHasher,
{
    type Iter = Iter<'a, K, S>;
    type Item = RefMulti<'a, K, S>;

    fn into_par_iter(self) -> Self::Iter {
        Iter {
            inner: (&self.inner).into_par_iter(),
        }
    }
}

pub struct Iter<'a, K, S = RandomState> {
    inner: super::map::Iter<'a, K, (), S>,
}

impl<'a, K, S> ParallelIterator for Iter<'a, K, S>
where
    K: Send + Sync + Eq + Hash,
    S: Send + Sync + Clone + BuildHasher,
{
    type Item = RefMulti<'a, K, S>;

    fn drive_unindexed<C>(self, consumer: C) -> C::Result
    where
        C: UnindexedConsumer<Self::Item>,
    {
        self.inner.map(RefMulti::new).drive_unindexed(consumer)
    }
}

use crate::mapref::multiple::RefMulti;
use crate::rayon::map::Iter;
use crate::ReadOnlyView;
use core::hash::{BuildHasher, Hash};
use rayon::iter::IntoParallelIterator;

impl<K, V, S> IntoParallelIterator for ReadOnlyView<K, V, S>
where
    K: Send + Eq + Hash,
    V: Send,
    S: Send + Clone + BuildHasher,
{
    type Iter = super::map::OwningIter<K, V, S>;
    type Item = (K, V);

    fn into_par_iter(self) -> Self::Iter {
        super::map::OwningIter {
            shards: self.map.shards,
        }
    }
}

// This impl also enables `IntoParallelRefIterator::par_iter`
impl<'a, K, V, S> IntoParallelIterator for &'a ReadOnlyView<K, V, S>
where
    K: Send + Sync + Eq + Hash,
    V: Send + Sync,
    S: Send + Sync + Clone + BuildHasher,
{
    type Iter = Iter<'a, K, V, S>;
    type Item = RefMulti<'a, K, V, S>;

    fn into_par_iter(self) -> Self::Iter {
        Iter {
            shards: &self.map.shards,
        }
    }
}

#[cfg(test)]
mod tests {
    use crate::DashMap;
    use rayon::iter::{IntoParallelIterator, IntoParallelRefIterator, ParallelIterator};

    fn construct_sample_map() -> DashMap<i32, String> {
        let map = DashMap::new();

        map.insert(1, "one".to_string());

        map.insert(10, "ten".to_string());

        map.insert(27, "twenty seven".to_string());

        map.insert(45, "forty five".to_string());

        map
    }

    #[test]
    fn test_par_iter() {
        let map = construct_sample_map();

        let view = map.clone().into_read_only();

        view.par_iter().for_each(|entry| {
            let key = *entry.key();

            assert!(view.contains_key(&key));

            let map_entry = map.get(&key).unwrap();

            assert_eq!(view.get(&key).unwrap(), map_entry.value());

            let key_value: (&i32, &String) = view.get_key_value(&key).unwrap();

            assert_eq!(key_value.0, map_entry.key());

            assert_eq!(key_value.1, map_entry.value());
        });
    }

    #[test]
    fn test_into_par_iter() {
        let map = construct_sample_map();

        let view = map.clone().into_read_only();

        view.into_par_iter().for_each(|(key, value)| {
            let map_entry = map.get(&key).unwrap();

            assert_eq!(&key, map_entry.key());

            assert_eq!(&value, map_entry.value());
        });
    }
}

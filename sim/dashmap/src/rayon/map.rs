use crate::lock::RwLock;
use crate::mapref::multiple::{RefMulti, RefMutMulti};
use crate::util;
use crate::{DashMap, HashMap};
use core::hash::{BuildHasher, Hash};
use rayon::iter::plumbing::UnindexedConsumer;
use rayon::iter::{FromParallelIterator, IntoParallelIterator, ParallelExtend, ParallelIterator};
use std::collections::hash_map::RandomState;
use std::sync::Arc;

impl<K, V, S> ParallelExtend<(K, V)> for DashMap<K, V, S>
where
    K: Send + Sync + Eq + Hash,
    V: Send + Sync,
    S: Send + Sync + Clone + BuildHasher,
{
    fn par_extend<I>(&mut self, par_iter: I)
    where
        I: IntoParallelIterator<Item = (K, V)>,
    {
        (&*self).par_extend(par_iter);
    }
}

// Since we don't actually need mutability, we can implement this on a
// reference, similar to `io::Write for &File`.
impl<K, V, S> ParallelExtend<(K, V)> for &'_ DashMap<K, V, S>
where
    K: Send + Sync + Eq + Hash,
    V: Send + Sync,
    S: Send + Sync + Clone + BuildHasher,
{
    fn par_extend<I>(&mut self, par_iter: I)
    where
        I: IntoParallelIterator<Item = (K, V)>,
    {
        let &mut map = self;
        par_iter.into_par_iter().for_each(move |(key, value)| {
            map.insert(key, value);
        });
    }
}

impl<K, V, S> FromParallelIterator<(K, V)> for DashMap<K, V, S>
where
    K: Send + Sync + Eq + Hash,
    V: Send + Sync,
    S: Send + Sync + Clone + Default + BuildHasher,
{
    fn from_par_iter<I>(par_iter: I) -> Self
    where
        I: IntoParallelIterator<Item = (K, V)>,
    {
        let map = Self::default();
        (&map).par_extend(par_iter);
        map
    }
}

// Implementation note: while the shards will iterate in parallel, we flatten
// sequentially within each shard (`flat_map_iter`), because the standard
// `HashMap` only implements `ParallelIterator` by collecting to a `Vec` first.
// There is real parallel support in the `hashbrown/rayon` feature, but we don't
// always use that map.

impl<K, V, S> IntoParallelIterator for DashMap<K, V, S>
where
    K: Send + Eq + Hash,
    V: Send,
    S: Send + Clone + BuildHasher,
{
    type Iter = OwningIter<K, V, S>;
    type Item = (K, V);

    fn into_par_iter(self) -> Self::Iter {
        OwningIter {
            shards: self.shards,
        }
    }
}

pub struct OwningIter<K, V, S = RandomState> {
    pub(super) shards: Box<[RwLock<HashMap<K, V, S>>]>,
}

impl<K, V, S> ParallelIterator for OwningIter<K, V, S>
where
    K: Send + Eq + Hash,
    V: Send,
    S: Send + Clone + BuildHasher,
{
    type Item = (K, V);

    fn drive_unindexed<C>(self, consumer: C) -> C::Result
    where
        C: UnindexedConsumer<Self::Item>,
    {
        Vec::from(self.shards)
            .into_par_iter()
            .flat_map_iter(|shard| {
                shard
                    .into_inner()
                    .into_iter()
                    .map(|(k, v)| (k, v.into_inner()))
            })
            .drive_unindexed(consumer)
    }
}

// This impl also enables `IntoParallelRefIterator::par_iter`
impl<'a, K, V, S> IntoParallelIterator for &'a DashMap<K, V, S>
where
    K: Send + Sync + Eq + Hash,
    V: Send + Sync,
    S: Send + Sync + Clone + BuildHasher,
{
    type Iter = Iter<'a, K, V, S>;
    type Item = RefMulti<'a, K, V, S>;

    fn into_par_iter(self) -> Self::Iter {
        Iter {
            shards: &self.shards,
        }
    }
}

pub struct Iter<'a, K, V, S = RandomState> {
    pub(super) shards: &'a [RwLock<HashMap<K, V, S>>],
}

impl<'a, K, V, S> ParallelIterator for Iter<'a, K, V, S>
where
    K: Send + Sync + Eq + Hash,
    V: Send + Sync,
    S: Send + Sync + Clone + BuildHasher,
{
    type Item = RefMulti<'a, K, V, S>;

    fn drive_unindexed<C>(self, consumer: C) -> C::Result
    where
        C: UnindexedConsumer<Self::Item>,
    {
        self.shards
            .into_par_iter()
            .flat_map_iter(|shard| {
                let guard = shard.read();
                let sref: &'a HashMap<K, V, S> = unsafe { util::change_lifetime_const(&*guard) };

                let guard = Arc::new(guard);
                sref.iter().map(move |(k, v)| {
                    let guard = Arc::clone(&guard);
                    unsafe { RefMulti::new(guard, k, v.get()) }
                })
            })
            .drive_unindexed(consumer)
    }
}

// This impl also enables `IntoParallelRefMutIterator::par_iter_mut`
impl<'a, K, V, S> IntoParallelIterator for &'a mut DashMap<K, V, S>
where
    K: Send + Sync + Eq + Hash,
    V: Send + Sync,
    S: Send + Sync + Clone + BuildHasher,
{
    type Iter = IterMut<'a, K, V, S>;
    type Item = RefMutMulti<'a, K, V, S>;

    fn into_par_iter(self) -> Self::Iter {
        IterMut {
            shards: &self.shards,
        }
    }
}

impl<K, V, S> DashMap<K, V, S>
where
    K: Send + Sync + Eq + Hash,
    V: Send + Sync,
    S: Send + Sync + Clone + BuildHasher,
{
    // Unlike `IntoParallelRefMutIterator::par_iter_mut`, we only _need_ `&self`.
    pub fn par_iter_mut(&self) -> IterMut<'_, K, V, S> {
        IterMut {
            shards: &self.shards,
        }
    }
}

pub struct IterMut<'a, K, V, S = RandomState> {
    shards: &'a [RwLock<HashMap<K, V, S>>],
}

impl<'a, K, V, S> ParallelIterator for IterMut<'a, K, V, S>
where
    K: Send + Sync + Eq + Hash,
    V: Send + Sync,
    S: Send + Sync + Clone + BuildHasher,
{
    type Item = RefMutMulti<'a, K, V, S>;

    fn drive_unindexed<C>(self, consumer: C) -> C::Result
    where
        C: UnindexedConsumer<Self::Item>,
    {
        self.shards
            .into_par_iter()
            .flat_map_iter(|shard| {
                let mut guard = shard.write();
                let sref: &'a mut HashMap<K, V, S> =
                    unsafe { util::change_lifetime_mut(&mut *guard) };

                let guard = Arc::new(guard);
                sref.iter_mut().map(move |(k, v)| {
                    let guard = Arc::clone(&guard);
                    unsafe { RefMutMulti::new(guard, k, v.get_mut()) }
                })
            })
            .drive_unindexed(consumer)
    }
}

use crate::iter_set::{Iter, OwningIter};
#[cfg(feature = "raw-api")]
use crate::lock::RwLock;
use crate::setref::one::Ref;
use crate::DashMap;
#[cfg(feature = "raw-api")]
use crate::HashMap;
use cfg_if::cfg_if;
use core::borrow::Borrow;
use core::fmt;
use core::hash::{BuildHasher, Hash};
use core::iter::FromIterator;
use std::collections::hash_map::RandomState;

/// DashSet is a thin wrapper around [`DashMap`] using `()` as the value type. It uses
/// methods and types which are more convenient to work with on a set.
///
/// [`DashMap`]: struct.DashMap.html
pub struct DashSet<K, S = RandomState> {
    pub(crate) inner: DashMap<K, (), S>,
}

impl<K: Eq + Hash + fmt::Debug, S: BuildHasher + Clone> fmt::Debug for DashSet<K, S> {
    fn fmt(&self, f: &mut fmt::Formatter<'_>) -> fmt::Result {
        fmt::Debug::fmt(&self.inner, f)
    }
}

impl<K: Eq + Hash + Clone, S: Clone> Clone for DashSet<K, S> {
    fn clone(&self) -> Self {
        Self {
            inner: self.inner.clone(),
        }
    }

    fn clone_from(&mut self, source: &Self) {
        self.inner.clone_from(&source.inner)
    }
}

impl<K, S> Default for DashSet<K, S>
where
    K: Eq + Hash,
    S: Default + BuildHasher + Clone,
{
    fn default() -> Self {
        Self::with_hasher(Default::default())
    }
}

impl<'a, K: 'a + Eq + Hash> DashSet<K, RandomState> {
    /// Creates a new DashSet with a capacity of 0.
    ///
    /// # Examples
    ///
    /// ```
    /// use dashmap::DashSet;
    ///
    /// let games = DashSet::new();
    /// games.insert("Veloren");
    /// ```
    pub fn new() -> Self {
        Self::with_hasher(RandomState::default())
    }

    /// Creates a new DashMap with a specified starting capacity.
    ///
    /// # Examples
    ///
    /// ```
    /// use dashmap::DashSet;
    ///
    /// let numbers = DashSet::with_capacity(2);
    /// numbers.insert(2);
    /// numbers.insert(8);
    /// ```
    pub fn with_capacity(capacity: usize) -> Self {
        Self::with_capacity_and_hasher(capacity, RandomState::default())
    }
}

impl<'a, K: 'a + Eq + Hash, S: BuildHasher + Clone> DashSet<K, S> {
    /// Creates a new DashMap with a capacity of 0 and the provided hasher.
    ///
    /// # Examples
    ///
    /// ```
    /// use dashmap::DashSet;
    /// use std::collections::hash_map::RandomState;
    ///
    /// let s = RandomState::new();
    /// let games = DashSet::with_hasher(s);
    /// games.insert("Veloren");
    /// ```
    pub fn with_hasher(hasher: S) -> Self {
        Self::with_capacity_and_hasher(0, hasher)
    }

    /// Creates a new DashMap with a specified starting capacity and hasher.
    ///
    /// # Examples
    ///
    /// ```
    /// use dashmap::DashSet;
    /// use std::collections::hash_map::RandomState;
    ///
    /// let s = RandomState::new();
    /// let numbers = DashSet::with_capacity_and_hasher(2, s);
    /// numbers.insert(2);
    /// numbers.insert(8);
    /// ```
    pub fn with_capacity_and_hasher(capacity: usize, hasher: S) -> Self {
        Self {
            inner: DashMap::with_capacity_and_hasher(capacity, hasher),
        }
    }

    /// Hash a given item to produce a usize.
    /// Uses the provided or default HashBuilder.
    pub fn hash_usize<T: Hash>(&self, item: &T) -> usize {
        self.inner.hash_usize(item)
    }

    cfg_if! {
        if #[cfg(feature = "raw-api")] {
            /// Allows you to peek at the inner shards that store your data.
            /// You should probably not use this unless you know what you are doing.
            ///
            /// Requires the `raw-api` feature to be enabled.
            ///
            /// # Examples
            ///
            /// ```
            /// use dashmap::DashSet;
            ///
            /// let set = DashSet::<()>::new();
            /// println!("Amount of shards: {}", set.shards().len());
            /// ```
            pub fn shards(&self) -> &[RwLock<HashMap<K, (), S>>] {
                self.inner.shards()
            }
        }
    }

    cfg_if! {
        if #[cfg(feature = "raw-api")] {
            /// Finds which shard a certain key is stored in.
            /// You should probably not use this unless you know what you are doing.
            /// Note that shard selection is dependent on the default or provided HashBuilder.
            ///
            /// Requires the `raw-api` feature to be enabled.
            ///
            /// # Examples
            ///
            /// ```
            /// use dashmap::DashSet;
            ///
            /// let set = DashSet::new();
            /// set.insert("coca-cola");
            /// println!("coca-cola is stored in shard: {}", set.determine_map("coca-cola"));
            /// ```
            pub fn determine_map<Q>(&self, key: &Q) -> usize
            where
                K: Borrow<Q>,
                Q: Hash + Eq + ?Sized,
            {
                self.inner.determine_map(key)
            }
        }
    }

    cfg_if! {
        if #[cfg(feature = "raw-api")] {
            /// Finds which shard a certain hash is stored in.
            ///
            /// Requires the `raw-api` feature to be enabled.
            ///
            /// # Examples
            ///
            /// ```
            /// use dashmap::DashSet;
            ///
            /// let set: DashSet<i32> = DashSet::new();
            /// let key = "key";
            /// let hash = set.hash_usize(&key);
            /// println!("hash is stored in shard: {}", set.determine_shard(hash));
            /// ```
            pub fn determine_shard(&self, hash: usize) -> usize {
                self.inner.determine_shard(hash)
            }
        }
    }

    /// Inserts a key into the set. Returns true if the key was not already in the set.
    ///
    /// # Examples
    ///
    /// ```
    /// use dashmap::DashSet;
    ///
    /// let set = DashSet::new();
    /// set.insert("I am the key!");
    /// ```
    pub fn insert(&self, key: K) -> bool {
        self.inner.insert(key, ()).is_none()
    }

    /// Removes an entry from the map, returning the key if it existed in the map.
    ///
    /// # Examples
    ///
    /// ```
    /// use dashmap::DashSet;
    ///
    /// let soccer_team = DashSet::new();
    /// soccer_team.insert("Jack");
    /// assert_eq!(soccer_team.remove("Jack").unwrap(), "Jack");
    /// ```
    pub fn remove<Q>(&self, key: &Q) -> Option<K>
    where
        K: Borrow<Q>,
        Q: Hash + Eq + ?Sized,
    {
        self.inner.remove(key).map(|(k, _)| k)
    }

    /// Removes an entry from the set, returning the key
    /// if the entry existed and the provided conditional function returned true.
    ///
    /// ```
    /// use dashmap::DashSet;
    ///
    /// let soccer_team = DashSet::new();
    /// soccer_team.insert("Sam");
    /// soccer_team.remove_if("Sam", |player| player.starts_with("Ja"));
    /// assert!(soccer_team.contains("Sam"));
    /// ```
    /// ```
    /// use dashmap::DashSet;
    ///
    /// let soccer_team = DashSet::new();
    /// soccer_team.insert("Sam");
    /// soccer_team.remove_if("Jacob", |player| player.starts_with("Ja"));
    /// assert!(!soccer_team.contains("Jacob"));
    /// ```
    pub fn remove_if<Q>(&self, key: &Q, f: impl FnOnce(&K) -> bool) -> Option<K>
    where
        K: Borrow<Q>,
        Q: Hash + Eq + ?Sized,
    {
        // TODO: Don't create another closure around f
        self.inner.remove_if(key, |k, _| f(k)).map(|(k, _)| k)
    }

    /// Creates an iterator over a DashMap yielding immutable references.
    ///
    /// # Examples
    ///
    /// ```
    /// use dashmap::DashSet;
    ///
    /// let words = DashSet::new();
    /// words.insert("hello");
    /// assert_eq!(words.iter().count(), 1);
    /// ```
    pub fn iter(&'a self) -> Iter<'a, K, S, DashMap<K, (), S>> {
        let iter = self.inner.iter();

        Iter::new(iter)
    }

    /// Get a reference to an entry in the set
    ///
    /// # Examples
    ///
    /// ```
    /// use dashmap::DashSet;
    ///
    /// let youtubers = DashSet::new();
    /// youtubers.insert("Bosnian Bill");
    /// assert_eq!(*youtubers.get("Bosnian Bill").unwrap(), "Bosnian Bill");
    /// ```
    pub fn get<Q>(&'a self, key: &Q) -> Option<Ref<'a, K, S>>
    where
        K: Borrow<Q>,
        Q: Hash + Eq + ?Sized,
    {
        self.inner.get(key).map(Ref::new)
    }

    /// Remove excess capacity to reduce memory usage.
    pub fn shrink_to_fit(&self) {
        self.inner.shrink_to_fit()
    }

    /// Retain elements that whose predicates return true
    /// and discard elements whose predicates return false.
    ///
    /// # Examples
    ///
    /// ```
    /// use dashmap::DashSet;
    ///
    /// let people = DashSet::new();
    /// people.insert("Albin");
    /// people.insert("Jones");
    /// people.insert("Charlie");
    /// people.retain(|name| name.contains('i'));
    /// assert_eq!(people.len(), 2);
    /// ```
    pub fn retain(&self, mut f: impl FnMut(&K) -> bool) {
        self.inner.retain(|k, _| f(k))
    }

    /// Fetches the total number of keys stored in the set.
    ///
    /// # Examples
    ///
    /// ```
    /// use dashmap::DashSet;
    ///
    /// let people = DashSet::new();
    /// people.insert("Albin");
    /// people.insert("Jones");
    /// people.insert("Charlie");
    /// assert_eq!(people.len(), 3);
    /// ```
    pub fn len(&self) -> usize {
        self.inner.len()
    }

    /// Checks if the set is empty or not.
    ///
    /// # Examples
    ///
    /// ```
    /// use dashmap::DashSet;
    ///
    /// let map = DashSet::<()>::new();
    /// assert!(map.is_empty());
    /// ```
    pub fn is_empty(&self) -> bool {
        self.inner.is_empty()
    }

    /// Removes all keys in the set.
    ///
    /// # Examples
    ///
    /// ```
    /// use dashmap::DashSet;
    ///
    /// let people = DashSet::new();
    /// people.insert("Albin");
    /// assert!(!people.is_empty());
    /// people.clear();
    /// assert!(people.is_empty());
    /// ```
    pub fn clear(&self) {
        self.inner.clear()
    }

    /// Returns how many keys the set can store without reallocating.
    pub fn capacity(&self) -> usize {
        self.inner.capacity()
    }

    /// Checks if the set contains a specific key.
    ///
    /// # Examples
    ///
    /// ```
    /// use dashmap::DashSet;
    ///
    /// let people = DashSet::new();
    /// people.insert("Dakota Cherries");
    /// assert!(people.contains("Dakota Cherries"));
    /// ```
    pub fn contains<Q>(&self, key: &Q) -> bool
    where
        K: Borrow<Q>,
        Q: Hash + Eq + ?Sized,
    {
        self.inner.contains_key(key)
    }
}

impl<K: Eq + Hash, S: BuildHasher + Clone> IntoIterator for DashSet<K, S> {
    type Item = K;

    type IntoIter = OwningIter<K, S>;

    fn into_iter(self) -> Self::IntoIter {
        OwningIter::new(self.inner.into_iter())
    }
}

impl<K: Eq + Hash, S: BuildHasher + Clone> Extend<K> for DashSet<K, S> {
    fn extend<T: IntoIterator<Item = K>>(&mut self, iter: T) {
        let iter = iter.into_iter().map(|k| (k, ()));

        self.inner.extend(iter)
    }
}

impl<K: Eq + Hash, S: BuildHasher + Clone + Default> FromIterator<K> for DashSet<K, S> {
    fn from_iter<I: IntoIterator<Item = K>>(iter: I) -> Self {
        let mut set = DashSet::default();

        set.extend(iter);

        set
    }
}

#[cfg(test)]
mod tests {
    use crate::DashSet;

    #[test]
    fn test_basic() {
        let set = DashSet::new();

        set.insert(0);

        assert_eq!(set.get(&0).as_deref(), Some(&0));
    }

    #[test]
    fn test_default() {
        let set: DashSet<u32> = DashSet::default();

        set.insert(0);

        assert_eq!(set.get(&0).as_deref(), Some(&0));
    }

    #[test]
    fn test_multiple_hashes() {
        let set = DashSet::<u32>::default();

        for i in 0..100 {
            assert!(set.insert(i));
        }

        for i in 0..100 {
            assert!(!set.insert(i));
        }

        for i in 0..100 {
            assert_eq!(Some(i), set.remove(&i));
        }

        for i in 0..100 {
            assert_eq!(None, set.remove(&i));
        }
    }
}

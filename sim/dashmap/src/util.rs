//! This module is full of hackery and dark magic.
//! Either spend a day fixing it and quietly submit a PR or don't mention it to anybody.
use core::cell::UnsafeCell;
use core::{mem, ptr};

pub const fn ptr_size_bits() -> usize {
    mem::size_of::<usize>() * 8
}

pub fn map_in_place_2<T, U, F: FnOnce(U, T) -> T>((k, v): (U, &mut T), f: F) {
    unsafe {
        // # Safety
        //
        // If the closure panics, we must abort otherwise we could double drop `T`
        let _promote_panic_to_abort = AbortOnPanic;

        ptr::write(v, f(k, ptr::read(v)));
    }
}

/// # Safety
///
/// Requires that you ensure the reference does not become invalid.
/// The object has to outlive the reference.
pub unsafe fn change_lifetime_const<'a, 'b, T>(x: &'a T) -> &'b T {
    &*(x as *const T)
}

/// # Safety
///
/// Requires that you ensure the reference does not become invalid.
/// The object has to outlive the reference.
pub unsafe fn change_lifetime_mut<'a, 'b, T>(x: &'a mut T) -> &'b mut T {
    &mut *(x as *mut T)
}

/// A simple wrapper around `T`
///
/// This is to prevent UB when using `HashMap::get_key_value`, because
/// `HashMap` doesn't expose an api to get the key and value, where
/// the value is a `&mut T`.
///
/// See [#10](https://github.com/xacrimon/dashmap/issues/10) for details
///
/// This type is meant to be an implementation detail, but must be exposed due to the `Dashmap::shards`
#[repr(transparent)]
pub struct SharedValue<T> {
    value: UnsafeCell<T>,
}

impl<T: Clone> Clone for SharedValue<T> {
    fn clone(&self) -> Self {
        let inner = self.get().clone();

        Self {
            value: UnsafeCell::new(inner),
        }
    }
}

unsafe impl<T: Send> Send for SharedValue<T> {}

unsafe impl<T: Sync> Sync for SharedValue<T> {}

impl<T> SharedValue<T> {
    /// Create a new `SharedValue<T>`
    pub const fn new(value: T) -> Self {
        Self {
            value: UnsafeCell::new(value),
        }
    }

    /// Get a shared reference to `T`
    pub fn get(&self) -> &T {
        unsafe { &*self.value.get() }
    }

    /// Get an unique reference to `T`
    pub fn get_mut(&mut self) -> &mut T {
        unsafe { &mut *self.value.get() }
    }

    /// Unwraps the value
    pub fn into_inner(self) -> T {
        self.value.into_inner()
    }

    /// Get a mutable raw pointer to the underlying value
    pub(crate) fn as_ptr(&self) -> *mut T {
        self.value.get()
    }
}

struct AbortOnPanic;

impl Drop for AbortOnPanic {
    fn drop(&mut self) {
        if std::thread::panicking() {
            std::process::abort()
        }
    }
}

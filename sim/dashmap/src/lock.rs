// /verif simulation build of dashmap 5.5.3: ONLY this file differs from the crates.io source.
// The parking_lot_core based reader/writer lock is replaced by a scheduler-aware one:
// every acquisition is first a point at which the deterministic simulator may deschedule the
// running task (`verif_rt::point`), and a contended acquisition spins through
// `verif_rt::contended()` so the scheduler sees a task that cannot progress. Outside a
// simulated execution the lock is a plain spin lock.
use core::sync::atomic::{AtomicUsize, Ordering};

pub type RwLock<T> = lock_api::RwLock<RawRwLock, T>;
pub type RwLockReadGuard<'a, T> = lock_api::RwLockReadGuard<'a, RawRwLock, T>;
pub type RwLockWriteGuard<'a, T> = lock_api::RwLockWriteGuard<'a, RawRwLock, T>;

const WRITER: usize = usize::MAX;

pub struct RawRwLock {
    state: AtomicUsize,
}

unsafe impl lock_api::RawRwLock for RawRwLock {
    #[allow(clippy::declare_interior_mutable_const)]
    const INIT: Self = Self {
        state: AtomicUsize::new(0),
    };

    type GuardMarker = lock_api::GuardNoSend;

    #[inline]
    fn try_lock_exclusive(&self) -> bool {
        // an attempt is a point at which the task may be descheduled, like a blocking acquisition
        verif_rt::point(verif_rt::Site::DashExclusive);
        let ok = self.try_exclusive_raw();
        if ok {
            verif_rt::point(verif_rt::Site::DashHeldExclusive);
        }
        ok
    }

    #[inline]
    fn lock_exclusive(&self) {
        verif_rt::point(verif_rt::Site::DashExclusive);
        while !self.try_exclusive_raw() {
            verif_rt::contended();
        }
        // the lock is now held: let other tasks run into it
        verif_rt::point(verif_rt::Site::DashHeldExclusive);
    }

    #[inline]
    unsafe fn unlock_exclusive(&self) {
        let prev = self.state.swap(0, Ordering::Release);
        debug_assert_eq!(prev, WRITER);
    }

    #[inline]
    fn try_lock_shared(&self) -> bool {
        verif_rt::point(verif_rt::Site::DashShared);
        let ok = self.try_shared_raw();
        if ok {
            verif_rt::point(verif_rt::Site::DashHeldShared);
        }
        ok
    }

    #[inline]
    fn lock_shared(&self) {
        verif_rt::point(verif_rt::Site::DashShared);
        while !self.try_shared_raw() {
            verif_rt::contended();
        }
        verif_rt::point(verif_rt::Site::DashHeldShared);
    }

    #[inline]
    unsafe fn unlock_shared(&self) {
        let prev = self.state.fetch_sub(1, Ordering::Release);
        debug_assert!(prev != 0 && prev != WRITER);
    }
}

unsafe impl lock_api::RawRwLockDowngrade for RawRwLock {
    #[inline]
    unsafe fn downgrade(&self) {
        let prev = self.state.swap(1, Ordering::Release);
        debug_assert_eq!(prev, WRITER);
    }
}

impl RawRwLock {
    #[inline]
    fn try_exclusive_raw(&self) -> bool {
        self.state
            .compare_exchange(0, WRITER, Ordering::Acquire, Ordering::Relaxed)
            .is_ok()
    }

    #[inline]
    fn try_shared_raw(&self) -> bool {
        let mut s = self.state.load(Ordering::Relaxed);
        loop {
            if s == WRITER {
                return false;
            }
            match self
                .state
                .compare_exchange(s, s + 1, Ordering::Acquire, Ordering::Relaxed)
            {
                Ok(_) => return true,
                Err(cur) => s = cur,
            }
        }
    }
}

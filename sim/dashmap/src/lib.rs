#![allow(clippy::type_complexity)]

#[cfg(feature = "arbitrary")]
mod arbitrary;
pub mod iter;
pub mod iter_set;
mod lock;
pub mod mapref;
mod read_only;
#[cfg(feature = "serde")]
mod serde;
mod set;
pub mod setref;
mod t;
pub mod try_result;
mod util;

#[cfg(feature = "rayon")]
pub mod rayon {
    pub mod map;
    pub mod read_only;
    pub mod set;
}

#[cfg(not(feature = "raw-api"))]
use crate::lock::{RwLock, RwLockReadGuard, RwLockWriteGuard};

#[cfg(feature = "raw-api")]
pub use crate::lock::{RawRwLock, RwLock, RwLockReadGuard, RwLockWriteGuard};

use cfg_if::cfg_if;
use core::borrow::Borrow;
use core::fmt;
use core::hash::{BuildHasher, Hash, Hasher};
use core::iter::FromIterator;
use core::ops::{BitAnd, BitOr, Shl, Shr, Sub};
use iter::{Iter, IterMut, OwningIter};
use mapref::entry::{Entry, OccupiedEntry, VacantEntry};
use mapref::multiple::RefMulti;
use mapref::one::{Ref, RefMut};
use once_cell::sync::OnceCell;
pub use read_only::ReadOnlyView;
pub use set::DashSet;
use std::collections::hash_map::RandomState;
pub use t::Map;
use try_result::TryResult;

cfg_if! {
    if #[cfg(feature = "raw-api")] {
        pub use util::SharedValue;
    } else {
        use util::SharedValue;
    }
}

pub(crate) type HashMap<K, V, S> = hashbrown::HashMap<K, SharedValue<V>, S>;

// Temporary reimplementation of [`std::collections::TryReserveError`]
// util [`std::collections::TryReserveError`] stabilises.
// We cannot easily create `std::collections` error type from `hashbrown` error type
// without access to `TryReserveError::kind` method.
#[non_exhaustive]
#[derive(Clone, PartialEq, Eq, Debug)]
pub struct TryReserveError {}

fn default_shard_amount() -> usize {
    static DEFAULT_SHARD_AMOUNT: OnceCell<usize> = OnceCell::new();
    *DEFAULT_SHARD_AMOUNT.get_or_init(|| {
        (std::thread::available_parallelism().map_or(1, usize::from) * 4).next_power_of_two()
    })
}

fn ncb(shard_amount: usize) -> usize {
    shard_amount.trailing_zeros() as usize
}

/// DashMap is an implementation of a concurrent associative array/hashmap in Rust.
///
/// DashMap tries to implement an easy to use API similar to `std::collections::HashMap`
/// with some slight changes to handle concurrency.
///
/// DashMap tries to be very simple to use and to be a direct replacement for `RwLock<HashMap<K, V, S>>`.
/// To accomplish this, all methods take `&self` instead of modifying methods taking `&mut self`.
/// This allows you to put a DashMap in an `Arc<T>` and share it between threads while being able to modify it.
///
/// Documentation mentioning locking behaviour acts in the reference frame of the calling thread.
/// This means that it is safe to ignore it across multiple threads.
pub struct DashMap<K, V, S = RandomState> {
    shift: usize,
    shards: Box<[RwLock<HashMap<K, V, S>>]>,
    hasher: S,
}

impl<K: Eq + Hash + Clone, V: Clone, S: Clone> Clone for DashMap<K, V, S> {
    fn clone(&self) -> Self {
        let mut inner_shards = Vec::new();

        for shard in self.shards.iter() {
            let shard = shard.read();

            inner_shards.push(RwLock::new((*shard).clone()));
        }

        Self {
            shift: self.shift,
            shards: inner_shards.into_boxed_slice(),
            hasher: self.hasher.clone(),
        }
    }
}

impl<K, V, S> Default for DashMap<K, V, S>
where
    K: Eq + Hash,
    S: Default + BuildHasher + Clone,
{
    fn default() -> Self {
        Self::with_hasher(Default::default())
    }
}

impl<'a, K: 'a + Eq + Hash, V: 'a> DashMap<K, V, RandomState> {
    /// Creates a new DashMap with a capacity of 0.
    ///
    /// # Examples
    ///
    /// ```
    /// use dashmap::DashMap;
    ///
    /// let reviews = DashMap::new();
    /// reviews.insert("Veloren", "What a fantastic game!");
    /// ```
    pub fn new() -> Self {
        DashMap::with_hasher(RandomState::default())
    }

    /// Creates a new DashMap with a specified starting capacity.
    ///
    /// # Examples
    ///
    /// ```
    /// use dashmap::DashMap;
    ///
    /// let mappings = DashMap::with_capacity(2);
    /// mappings.insert(2, 4);
    /// mappings.insert(8, 16);
    /// ```
    pub fn with_capacity(capacity: usize) -> Self {
        DashMap::with_capacity_and_hasher(capacity, RandomState::default())
    }

    /// Creates a new DashMap with a specified shard amount
    ///
    /// shard_amount should greater than 0 and be a power of two.
    /// If a shard_amount which is not a power of two is provided, the function will panic.
    ///
    /// # Examples
    ///
    /// ```
    /// use dashmap::DashMap;
    ///
    /// let mappings = DashMap::with_shard_amount(32);
    /// mappings.insert(2, 4);
    /// mappings.insert(8, 16);
    /// ```
    pub fn with_shard_amount(shard_amount: usize) -> Self {
        Self::with_capacity_and_hasher_and_shard_amount(0, RandomState::default(), shard_amount)
    }

    /// Creates a new DashMap with a specified capacity and shard amount.
    ///
    /// shard_amount should greater than 0 and be a power of two.
    /// If a shard_amount which is not a power of two is provided, the function will panic.
    ///
    /// # Examples
    ///
    /// ```
    /// use dashmap::DashMap;
    ///
    /// let mappings = DashMap::with_capacity_and_shard_amount(32, 32);
    /// mappings.insert(2, 4);
    /// mappings.insert(8, 16);
    /// ```
    pub fn with_capacity_and_shard_amount(capacity: usize, shard_amount: usize) -> Self {
        Self::with_capacity_and_hasher_and_shard_amount(
            capacity,
            RandomState::default(),
            shard_amount,
        )
    }
}

impl<'a, K: 'a + Eq + Hash, V: 'a, S: BuildHasher + Clone> DashMap<K, V, S> {
    /// Wraps this `DashMap` into a read-only view. This view allows to obtain raw references to the stored values.
    pub fn into_read_only(self) -> ReadOnlyView<K, V, S> {
        ReadOnlyView::new(self)
    }

    /// Creates a new DashMap with a capacity of 0 and the provided hasher.
    ///
    /// # Examples
    ///
    /// ```
    /// use dashmap::DashMap;
    /// use std::collections::hash_map::RandomState;
    ///
    /// let s = RandomState::new();
    /// let reviews = DashMap::with_hasher(s);
    /// reviews.insert("Veloren", "What a fantastic game!");
    /// ```
    pub fn with_hasher(hasher: S) -> Self {
        Self::with_capacity_and_hasher(0, hasher)
    }

    /// Creates a new DashMap with a specified starting capacity and hasher.
    ///
    /// # Examples
    ///
    /// ```
    /// use dashmap::DashMap;
    /// use std::collections::hash_map::RandomState;
    ///
    /// let s = RandomState::new();
    /// let mappings = DashMap::with_capacity_and_hasher(2, s);
    /// mappings.insert(2, 4);
    /// mappings.insert(8, 16);
    /// ```
    pub fn with_capacity_and_hasher(capacity: usize, hasher: S) -> Self {
        Self::with_capacity_and_hasher_and_shard_amount(capacity, hasher, default_shard_amount())
    }

    /// Creates a new DashMap with a specified hasher and shard amount
    ///
    /// shard_amount should be greater than 0 and a power of two.
    /// If a shard_amount which is not a power of two is provided, the function will panic.
    ///
    /// # Examples
    ///
    /// ```
    /// use dashmap::DashMap;
    /// use std::collections::hash_map::RandomState;
    ///
    /// let s = RandomState::new();
    /// let mappings = DashMap::with_hasher_and_shard_amount(s, 32);
    /// mappings.insert(2, 4);
    /// mappings.insert(8, 16);
    /// ```
    pub fn with_hasher_and_shard_amount(hasher: S, shard_amount: usize) -> Self {
        Self::with_capacity_and_hasher_and_shard_amount(0, hasher, shard_amount)
    }

    /// Creates a new DashMap with a specified starting capacity, hasher and shard_amount.
    ///
    /// shard_amount should greater than 0 and be a power of two.
    /// If a shard_amount which is not a power of two is provided, the function will panic.
    ///
    /// # Examples
    ///
    /// ```
    /// use dashmap::DashMap;
    /// use std::collections::hash_map::RandomState;
    ///
    /// let s = RandomState::new();
    /// let mappings = DashMap::with_capacity_and_hasher_and_shard_amount(2, s, 32);
    /// mappings.insert(2, 4);
    /// mappings.insert(8, 16);
    /// ```
    pub fn with_capacity_and_hasher_and_shard_amount(
        mut capacity: usize,
        hasher: S,
        shard_amount: usize,
    ) -> Self {
        assert!(shard_amount > 1);
        assert!(shard_amount.is_power_of_two());

        let shift = util::ptr_size_bits() - ncb(shard_amount);

        if capacity != 0 {
            capacity = (capacity + (shard_amount - 1)) & !(shard_amount - 1);
        }

        let cps = capacity / shard_amount;

        let shards = (0..shard_amount)
            .map(|_| RwLock::new(HashMap::with_capacity_and_hasher(cps, hasher.clone())))
            .collect();

        Self {
            shift,
            shards,
            hasher,
        }
    }

    /// Hash a given item to produce a usize.
    /// Uses the provided or default HashBuilder.
    pub fn hash_usize<T: Hash>(&self, item: &T) -> usize {
        let mut hasher = self.hasher.build_hasher();

        item.hash(&mut hasher);

        hasher.finish() as usize
    }

    cfg_if! {
        if #[cfg(feature = "raw-api")] {
            /// Allows you to peek at the inner shards that store your data.
            /// You should probably not use this unless you know what you are doing.
            ///
            /// Requires the `raw-api` feature to be enabled.
            ///
            /// # Examples
            ///
            /// ```
            /// use dashmap::DashMap;
            ///
            /// let map = DashMap::<(), ()>::new();
            /// println!("Amount of shards: {}", map.shards().len());
            /// ```
            pub fn shards(&self) -> &[RwLock<HashMap<K, V, S>>] {
                &self.shards
            }

            /// Provides mutable access to the inner shards that store your data.
            /// You should probably not use this unless you know what you are doing.
            ///
            /// Requires the `raw-api` feature to be enabled.
            ///
            /// # Examples
            ///
            /// ```
            /// use dashmap::DashMap;
            /// use dashmap::SharedValue;
            ///
            /// let mut map = DashMap::<i32, &'static str>::new();
            /// let shard_ind = map.determine_map(&42);
            /// map.shards_mut()[shard_ind].get_mut().insert(42, SharedValue::new("forty two"));
            /// assert_eq!(*map.get(&42).unwrap(), "forty two");
            /// ```
            pub fn shards_mut(&mut self) -> &mut [RwLock<HashMap<K, V, S>>] {
                &mut self.shards
            }

            /// Consumes this `DashMap` and returns the inner shards.
            /// You should probably not use this unless you know what you are doing.
            ///
            /// Requires the `raw-api` feature to be enabled.
            ///
            /// See [`DashMap::shards()`] and [`DashMap::shards_mut()`] for more information.
            pub fn into_shards(self) -> Box<[RwLock<HashMap<K, V, S>>]> {
                self.shards
            }
        } else {
            #[allow(dead_code)]
            pub(crate) fn shards(&self) -> &[RwLock<HashMap<K, V, S>>] {
                &self.shards
            }

            #[allow(dead_code)]
            pub(crate) fn shards_mut(&mut self) -> &mut [RwLock<HashMap<K, V, S>>] {
                &mut self.shards
            }

            #[allow(dead_code)]
            pub(crate) fn into_shards(self) -> Box<[RwLock<HashMap<K, V, S>>]> {
                self.shards
            }
        }
    }

    cfg_if! {
        if #[cfg(feature = "raw-api")] {
            /// Finds which shard a certain key is stored in.
            /// You should probably not use this unless you know what you are doing.
            /// Note that shard selection is dependent on the default or provided HashBuilder.
            ///
            /// Requires the `raw-api` feature to be enabled.
            ///
            /// # Examples
            ///
            /// ```
            /// use dashmap::DashMap;
            ///
            /// let map = DashMap::new();
            /// map.insert("coca-cola", 1.4);
            /// println!("coca-cola is stored in shard: {}", map.determine_map("coca-cola"));
            /// ```
            pub fn determine_map<Q>(&self, key: &Q) -> usize
            where
                K: Borrow<Q>,
                Q: Hash + Eq + ?Sized,
            {
                let hash = self.hash_usize(&key);
                self.determine_shard(hash)
            }
        }
    }

    cfg_if! {
        if #[cfg(feature = "raw-api")] {
            /// Finds which shard a certain hash is stored in.
            ///
            /// Requires the `raw-api` feature to be enabled.
            ///
            /// # Examples
            ///
            /// ```
            /// use dashmap::DashMap;
            ///
            /// let map: DashMap<i32, i32> = DashMap::new();
            /// let key = "key";
            /// let hash = map.hash_usize(&key);
            /// println!("hash is stored in shard: {}", map.determine_shard(hash));
            /// ```
            pub fn determine_shard(&self, hash: usize) -> usize {
                // Leave the high 7 bits for the HashBrown SIMD tag.
                (hash << 7) >> self.shift
            }
        } else {

            pub(crate) fn determine_shard(&self, hash: usize) -> usize {
                // Leave the high 7 bits for the HashBrown SIMD tag.
                (hash << 7) >> self.shift
            }
        }
    }

    /// Returns a reference to the map's [`BuildHasher`].
    ///
    /// # Examples
    ///
    /// ```rust
    /// use dashmap::DashMap;
    /// use std::collections::hash_map::RandomState;
    ///
    /// let hasher = RandomState::new();
    /// let map: DashMap<i32, i32> = DashMap::new();
    /// let hasher: &RandomState = map.hasher();
    /// ```
    ///
    /// [`BuildHasher`]: https://doc.rust-lang.org/std/hash/trait.BuildHasher.html
    pub fn hasher(&self) -> &S {
        &self.hasher
    }

    /// Inserts a key and a value into the map. Returns the old value associated with the key if there was one.
    ///
    /// **Locking behaviour:** May deadlock if called when holding any sort of reference into the map.
    ///
    /// # Examples
    ///
    /// ```
    /// use dashmap::DashMap;
    ///
    /// let map = DashMap::new();
    /// map.insert("I am the key!", "And I am the value!");
    /// ```
    pub fn insert(&self, key: K, value: V) -> Option<V> {
        self._insert(key, value)
    }

    /// Removes an entry from the map, returning the key and value if they existed in the map.
    ///
    /// **Locking behaviour:** May deadlock if called when holding any sort of reference into the map.
    ///
    /// # Examples
    ///
    /// ```
    /// use dashmap::DashMap;
    ///
    /// let soccer_team = DashMap::new();
    /// soccer_team.insert("Jack", "Goalie");
    /// assert_eq!(soccer_team.remove("Jack").unwrap().1, "Goalie");
    /// ```
    pub fn remove<Q>(&self, key: &Q) -> Option<(K, V)>
    where
        K: Borrow<Q>,
        Q: Hash + Eq + ?Sized,
    {
        self._remove(key)
    }

    /// Removes an entry from the map, returning the key and value
    /// if the entry existed and the provided conditional function returned true.
    ///
    /// **Locking behaviour:** May deadlock if called when holding any sort of reference into the map.
    ///
    /// ```
    /// use dashmap::DashMap;
    ///
    /// let soccer_team = DashMap::new();
    /// soccer_team.insert("Sam", "Forward");
    /// soccer_team.remove_if("Sam", |_, position| position == &"Goalie");
    /// assert!(soccer_team.contains_key("Sam"));
    /// ```
    /// ```
    /// use dashmap::DashMap;
    ///
    /// let soccer_team = DashMap::new();
    /// soccer_team.insert("Sam", "Forward");
    /// soccer_team.remove_if("Sam", |_, position| position == &"Forward");
    /// assert!(!soccer_team.contains_key("Sam"));
    /// ```
    pub fn remove_if<Q>(&self, key: &Q, f: impl FnOnce(&K, &V) -> bool) -> Option<(K, V)>
    where
        K: Borrow<Q>,
        Q: Hash + Eq + ?Sized,
    {
        self._remove_if(key, f)
    }

    pub fn remove_if_mut<Q>(&self, key: &Q, f: impl FnOnce(&K, &mut V) -> bool) -> Option<(K, V)>
    where
        K: Borrow<Q>,
        Q: Hash + Eq + ?Sized,
    {
        self._remove_if_mut(key, f)
    }

    /// Creates an iterator over a DashMap yielding immutable references.
    ///
    /// **Locking behaviour:** May deadlock if called when holding a mutable reference into the map.
    ///
    /// # Examples
    ///
    /// ```
    /// use dashmap::DashMap;
    ///
    /// let words = DashMap::new();
    /// words.insert("hello", "world");
    /// assert_eq!(words.iter().count(), 1);
    /// ```
    pub fn iter(&'a self) -> Iter<'a, K, V, S, DashMap<K, V, S>> {
        self._iter()
    }

    /// Iterator over a DashMap yielding mutable references.
    ///
    /// **Locking behaviour:** May deadlock if called when holding any sort of reference into the map.
    ///
    /// # Examples
    ///
    /// ```
    /// use dashmap::DashMap;
    ///
    /// let map = DashMap::new();
    /// map.insert("Johnny", 21);
    /// map.iter_mut().for_each(|mut r| *r += 1);
    /// assert_eq!(*map.get("Johnny").unwrap(), 22);
    /// ```
    pub fn iter_mut(&'a self) -> IterMut<'a, K, V, S, DashMap<K, V, S>> {
        self._iter_mut()
    }

    /// Get an immutable reference to an entry in the map
    ///
    /// **Locking behaviour:** May deadlock if called when holding a mutable reference into the map.
    ///
    /// # Examples
    ///
    /// ```
    /// use dashmap::DashMap;
    ///
    /// let youtubers = DashMap::new();
    /// youtubers.insert("Bosnian Bill", 457000);
    /// assert_eq!(*youtubers.get("Bosnian Bill").unwrap(), 457000);
    /// ```
    pub fn get<Q>(&'a self, key: &Q) -> Option<Ref<'a, K, V, S>>
    where
        K: Borrow<Q>,
        Q: Hash + Eq + ?Sized,
    {
        self._get(key)
    }

    /// Get a mutable reference to an entry in the map
    ///
    /// **Locking behaviour:** May deadlock if called when holding any sort of reference into the map.
    ///
    /// # Examples
    ///
    /// ```
    /// use dashmap::DashMap;
    ///
    /// let class = DashMap::new();
    /// class.insert("Albin", 15);
    /// *class.get_mut("Albin").unwrap() -= 1;
    /// assert_eq!(*class.get("Albin").unwrap(), 14);
    /// ```
    pub fn get_mut<Q>(&'a self, key: &Q) -> Option<RefMut<'a, K, V, S>>
    where
        K: Borrow<Q>,
        Q: Hash + Eq + ?Sized,
    {
        self._get_mut(key)
    }

    /// Get an immutable reference to an entry in the map, if the shard is not locked.
    /// If the shard is locked, the function will return [TryResult::Locked].
    ///
    /// # Examples
    ///
    /// ```
    /// use dashmap::DashMap;
    /// use dashmap::try_result::TryResult;
    ///
    /// let map = DashMap::new();
    /// map.insert("Johnny", 21);
    ///
    /// assert_eq!(*map.try_get("Johnny").unwrap(), 21);
    ///
    /// let _result1_locking = map.get_mut("Johnny");
    ///
    /// let result2 = map.try_get("Johnny");
    /// assert!(result2.is_locked());
    /// ```
    pub fn try_get<Q>(&'a self, key: &Q) -> TryResult<Ref<'a, K, V, S>>
    where
        K: Borrow<Q>,
        Q: Hash + Eq + ?Sized,
    {
        self._try_get(key)
    }

    /// Get a mutable reference to an entry in the map, if the shard is not locked.
    /// If the shard is locked, the function will return [TryResult::Locked].
    ///
    /// # Examples
    ///
    /// ```
    /// use dashmap::DashMap;
    /// use dashmap::try_result::TryResult;
    ///
    /// let map = DashMap::new();
    /// map.insert("Johnny", 21);
    ///
    /// *map.try_get_mut("Johnny").unwrap() += 1;
    /// assert_eq!(*map.get("Johnny").unwrap(), 22);
    ///
    /// let _result1_locking = map.get("Johnny");
    ///
    /// let result2 = map.try_get_mut("Johnny");
    /// assert!(result2.is_locked());
    /// ```
    pub fn try_get_mut<Q>(&'a self, key: &Q) -> TryResult<RefMut<'a, K, V, S>>
    where
        K: Borrow<Q>,
        Q: Hash + Eq + ?Sized,
    {
        self._try_get_mut(key)
    }

    /// Remove excess capacity to reduce memory usage.
    ///
    /// **Locking behaviour:** May deadlock if called when holding any sort of reference into the map.
    pub fn shrink_to_fit(&self) {
        self._shrink_to_fit();
    }

    /// Retain elements that whose predicates return true
    /// and discard elements whose predicates return false.
    ///
    /// **Locking behaviour:** May deadlock if called when holding any sort of reference into the map.
    ///
    /// # Examples
    ///
    /// ```
    /// use dashmap::DashMap;
    ///
    /// let people = DashMap::new();
    /// people.insert("Albin", 15);
    /// people.insert("Jones", 22);
    /// people.insert("Charlie", 27);
    /// people.retain(|_, v| *v > 20);
    /// assert_eq!(people.len(), 2);
    /// ```
    pub fn retain(&self, f: impl FnMut(&K, &mut V) -> bool) {
        self._retain(f);
    }

    /// Fetches the total number of key-value pairs stored in the map.
    ///
    /// **Locking behaviour:** May deadlock if called when holding a mutable reference into the map.
    ///
    /// # Examples
    ///
    /// ```
    /// use dashmap::DashMap;
    ///
    /// let people = DashMap::new();
    /// people.insert("Albin", 15);
    /// people.insert("Jones", 22);
    /// people.insert("Charlie", 27);
    /// assert_eq!(people.len(), 3);
    /// ```
    pub fn len(&self) -> usize {
        self._len()
    }

    /// Checks if the map is empty or not.
    ///
    /// **Locking behaviour:** May deadlock if called when holding a mutable reference into the map.
    ///
    /// # Examples
    ///
    /// ```
    /// use dashmap::DashMap;
    ///
    /// let map = DashMap::<(), ()>::new();
    /// assert!(map.is_empty());
    /// ```
    pub fn is_empty(&self) -> bool {
        self._is_empty()
    }

    /// Removes all key-value pairs in the map.
    ///
    /// **Locking behaviour:** May deadlock if called when holding any sort of reference into the map.
    ///
    /// # Examples
    ///
    /// ```
    /// use dashmap::DashMap;
    ///
    /// let stats = DashMap::new();
    /// stats.insert("Goals", 4);
    /// assert!(!stats.is_empty());
    /// stats.clear();
    /// assert!(stats.is_empty());
    /// ```
    pub fn clear(&self) {
        self._clear();
    }

    /// Returns how many key-value pairs the map can store without reallocating.
    ///
    /// **Locking behaviour:** May deadlock if called when holding a mutable reference into the map.
    pub fn capacity(&self) -> usize {
        self._capacity()
    }

    /// Modify a specific value according to a function.
    ///
    /// **Locking behaviour:** May deadlock if called when holding any sort of reference into the map.
    ///
    /// # Examples
    ///
    /// ```
    /// use dashmap::DashMap;
    ///
    /// let stats = DashMap::new();
    /// stats.insert("Goals", 4);
    /// stats.alter("Goals", |_, v| v * 2);
    /// assert_eq!(*stats.get("Goals").unwrap(), 8);
    /// ```
    ///
    /// # Panics
    ///
    /// If the given closure panics, then `alter` will abort the process
    pub fn alter<Q>(&self, key: &Q, f: impl FnOnce(&K, V) -> V)
    where
        K: Borrow<Q>,
        Q: Hash + Eq + ?Sized,
    {
        self._alter(key, f);
    }

    /// Modify every value in the map according to a function.
    ///
    /// **Locking behaviour:** May deadlock if called when holding any sort of reference into the map.
    ///
    /// # Examples
    ///
    /// ```
    /// use dashmap::DashMap;
    ///
    /// let stats = DashMap::new();
    /// stats.insert("Wins", 4);
    /// stats.insert("Losses", 2);
    /// stats.alter_all(|_, v| v + 1);
    /// assert_eq!(*stats.get("Wins").unwrap(), 5);
    /// assert_eq!(*stats.get("Losses").unwrap(), 3);
    /// ```
    ///
    /// # Panics
    ///
    /// If the given closure panics, then `alter_all` will abort the process
    pub fn alter_all(&self, f: impl FnMut(&K, V) -> V) {
        self._alter_all(f);
    }

    /// Scoped access into an item of the map according to a function.
    ///
    /// **Locking behaviour:** May deadlock if called when holding any sort of reference into the map.
    ///
    /// # Examples
    ///
    /// ```
    /// use dashmap::DashMap;
    ///
    /// let warehouse = DashMap::new();
    /// warehouse.insert(4267, ("Banana", 100));
    /// warehouse.insert(2359, ("Pear", 120));
    /// let fruit = warehouse.view(&4267, |_k, v| *v);
    /// assert_eq!(fruit, Some(("Banana", 100)));
    /// ```
    ///
    /// # Panics
    ///
    /// If the given closure panics, then `view` will abort the process
    pub fn view<Q, R>(&self, key: &Q, f: impl FnOnce(&K, &V) -> R) -> Option<R>
    where
        K: Borrow<Q>,
        Q: Hash + Eq + ?Sized,
    {
        self._view(key, f)
    }

    /// Checks if the map contains a specific key.
    ///
    /// **Locking behaviour:** May deadlock if called when holding a mutable reference into the map.
    ///
    /// # Examples
    ///
    /// ```
    /// use dashmap::DashMap;
    ///
    /// let team_sizes = DashMap::new();
    /// team_sizes.insert("Dakota Cherries", 23);
    /// assert!(team_sizes.contains_key("Dakota Cherries"));
    /// ```
    pub fn contains_key<Q>(&self, key: &Q) -> bool
    where
        K: Borrow<Q>,
        Q: Hash + Eq + ?Sized,
    {
        self._contains_key(key)
    }

    /// Advanced entry API that tries to mimic `std::collections::HashMap`.
    /// See the documentation on `dashmap::mapref::entry` for more details.
    ///
    /// **Locking behaviour:** May deadlock if called when holding any sort of reference into the map.
    pub fn entry(&'a self, key: K) -> Entry<'a, K, V, S> {
        self._entry(key)
    }

    /// Advanced entry API that tries to mimic `std::collections::HashMap`.
    /// See the documentation on `dashmap::mapref::entry` for more details.
    ///
    /// Returns None if the shard is currently locked.
    pub fn try_entry(&'a self, key: K) -> Option<Entry<'a, K, V, S>> {
        self._try_entry(key)
    }

    /// Advanced entry API that tries to mimic `std::collections::HashMap::try_reserve`.
    /// Tries to reserve capacity for at least `shard * additional`
    /// and may reserve more space to avoid frequent reallocations.
    ///
    /// # Errors
    ///
    /// If the capacity overflows, or the allocator reports a failure, then an error is returned.
    // TODO: return std::collections::TryReserveError once std::collections::TryReserveErrorKind stabilises.
    pub fn try_reserve(&mut self, additional: usize) -> Result<(), TryReserveError> {
        for shard in self.shards.iter() {
            shard
                .write()
                .try_reserve(additional)
                .map_err(|_| TryReserveError {})?;
        }
        Ok(())
    }
}

impl<'a, K: 'a + Eq + Hash, V: 'a, S: 'a + BuildHasher + Clone> Map<'a, K, V, S>
    for DashMap<K, V, S>
{
    fn _shard_count(&self) -> usize {
        self.shards.len()
    }

    unsafe fn _get_read_shard(&'a self, i: usize) -> &'a HashMap<K, V, S> {
        debug_assert!(i < self.shards.len());

        &*self.shards.get_unchecked(i).data_ptr()
    }

    unsafe fn _yield_read_shard(&'a self, i: usize) -> RwLockReadGuard<'a, HashMap<K, V, S>> {
        debug_assert!(i < self.shards.len());

        self.shards.get_unchecked(i).read()
    }

    unsafe fn _yield_write_shard(&'a self, i: usize) -> RwLockWriteGuard<'a, HashMap<K, V, S>> {
        debug_assert!(i < self.shards.len());

        self.shards.get_unchecked(i).write()
    }

    unsafe fn _try_yield_read_shard(
        &'a self,
        i: usize,
    ) -> Option<RwLockReadGuard<'a, HashMap<K, V, S>>> {
        debug_assert!(i < self.shards.len());

        self.shards.get_unchecked(i).try_read()
    }

    unsafe fn _try_yield_write_shard(
        &'a self,
        i: usize,
    ) -> Option<RwLockWriteGuard<'a, HashMap<K, V, S>>> {
        debug_assert!(i < self.shards.len());

        self.shards.get_unchecked(i).try_write()
    }

    fn _insert(&self, key: K, value: V) -> Option<V> {
        let hash = self.hash_usize(&key);

        let idx = self.determine_shard(hash);

        let mut shard = unsafe { self._yield_write_shard(idx) };

        shard
            .insert(key, SharedValue::new(value))
            .map(|v| v.into_inner())
    }

    fn _remove<Q>(&self, key: &Q) -> Option<(K, V)>
    where
        K: Borrow<Q>,
        Q: Hash + Eq + ?Sized,
    {
        let hash = self.hash_usize(&key);

        let idx = self.determine_shard(hash);

        let mut shard = unsafe { self._yield_write_shard(idx) };

        shard.remove_entry(key).map(|(k, v)| (k, v.into_inner()))
    }

    fn _remove_if<Q>(&self, key: &Q, f: impl FnOnce(&K, &V) -> bool) -> Option<(K, V)>
    where
        K: Borrow<Q>,
        Q: Hash + Eq + ?Sized,
    {
        let hash = self.hash_usize(&key);

        let idx = self.determine_shard(hash);

        let mut shard = unsafe { self._yield_write_shard(idx) };

        if let Some((kptr, vptr)) = shard.get_key_value(key) {
            unsafe {
                let kptr: *const K = kptr;
                let vptr: *mut V = vptr.as_ptr();

                if f(&*kptr, &mut *vptr) {
                    shard.remove_entry(key).map(|(k, v)| (k, v.into_inner()))
                } else {
                    None
                }
            }
        } else {
            None
        }
    }

    fn _remove_if_mut<Q>(&self, key: &Q, f: impl FnOnce(&K, &mut V) -> bool) -> Option<(K, V)>
    where
        K: Borrow<Q>,
        Q: Hash + Eq + ?Sized,
    {
        let hash = self.hash_usize(&key);

        let idx = self.determine_shard(hash);

        let mut shard = unsafe { self._yield_write_shard(idx) };

        if let Some((kptr, vptr)) = shard.get_key_value(key) {
            unsafe {
                let kptr: *const K = kptr;
                let vptr: *mut V = vptr.as_ptr();

                if f(&*kptr, &mut *vptr) {
                    shard.remove_entry(key).map(|(k, v)| (k, v.into_inner()))
                } else {
                    None
                }
            }
        } else {
            None
        }
    }

    fn _iter(&'a self) -> Iter<'a, K, V, S, DashMap<K, V, S>> {
        Iter::new(self)
    }

    fn _iter_mut(&'a self) -> IterMut<'a, K, V, S, DashMap<K, V, S>> {
        IterMut::new(self)
    }

    fn _get<Q>(&'a self, key: &Q) -> Option<Ref<'a, K, V, S>>
    where
        K: Borrow<Q>,
        Q: Hash + Eq + ?Sized,
    {
        let hash = self.hash_usize(&key);

        let idx = self.determine_shard(hash);

        let shard = unsafe { self._yield_read_shard(idx) };

        if let Some((kptr, vptr)) = shard.get_key_value(key) {
            unsafe {
                let kptr: *const K = kptr;
                let vptr: *const V = vptr.get();
                Some(Ref::new(shard, kptr, vptr))
            }
        } else {
            None
        }
    }

    fn _get_mut<Q>(&'a self, key: &Q) -> Option<RefMut<'a, K, V, S>>
    where
        K: Borrow<Q>,
        Q: Hash + Eq + ?Sized,
    {
        let hash = self.hash_usize(&key);

        let idx = self.determine_shard(hash);

        let shard = unsafe { self._yield_write_shard(idx) };

        if let Some((kptr, vptr)) = shard.get_key_value(key) {
            unsafe {
                let kptr: *const K = kptr;
                let vptr: *mut V = vptr.as_ptr();
                Some(RefMut::new(shard, kptr, vptr))
            }
        } else {
            None
        }
    }

    fn _try_get<Q>(&'a self, key: &Q) -> TryResult<Ref<'a, K, V, S>>
    where
        K: Borrow<Q>,
        Q: Hash + Eq + ?Sized,
    {
        let hash = self.hash_usize(&key);

        let idx = self.determine_shard(hash);

        let shard = match unsafe { self._try_yield_read_shard(idx) } {
            Some(shard) => shard,
            None => return TryResult::Locked,
        };

        if let Some((kptr, vptr)) = shard.get_key_value(key) {
            unsafe {
                let kptr: *const K = kptr;
                let vptr: *const V = vptr.get();
                TryResult::Present(Ref::new(shard, kptr, vptr))
            }
        } else {
            TryResult::Absent
        }
    }

    fn _try_get_mut<Q>(&'a self, key: &Q) -> TryResult<RefMut<'a, K, V, S>>
    where
        K: Borrow<Q>,
        Q: Hash + Eq + ?Sized,
    {
        let hash = self.hash_usize(&key);

        let idx = self.determine_shard(hash);

        let shard = match unsafe { self._try_yield_write_shard(idx) } {
            Some(shard) => shard,
            None => return TryResult::Locked,
        };

        if let Some((kptr, vptr)) = shard.get_key_value(key) {
            unsafe {
                let kptr: *const K = kptr;
                let vptr: *mut V = vptr.as_ptr();
                TryResult::Present(RefMut::new(shard, kptr, vptr))
            }
        } else {
            TryResult::Absent
        }
    }

    fn _shrink_to_fit(&self) {
        self.shards.iter().for_each(|s| s.write().shrink_to_fit());
    }

    fn _retain(&self, mut f: impl FnMut(&K, &mut V) -> bool) {
        self.shards
            .iter()
            .for_each(|s| s.write().retain(|k, v| f(k, v.get_mut())));
    }

    fn _len(&self) -> usize {
        self.shards.iter().map(|s| s.read().len()).sum()
    }

    fn _capacity(&self) -> usize {
        self.shards.iter().map(|s| s.read().capacity()).sum()
    }

    fn _alter<Q>(&self, key: &Q, f: impl FnOnce(&K, V) -> V)
    where
        K: Borrow<Q>,
        Q: Hash + Eq + ?Sized,
    {
        if let Some(mut r) = self.get_mut(key) {
            util::map_in_place_2(r.pair_mut(), f);
        }
    }

    fn _alter_all(&self, mut f: impl FnMut(&K, V) -> V) {
        self.shards.iter().for_each(|s| {
            s.write()
                .iter_mut()
                .for_each(|(k, v)| util::map_in_place_2((k, v.get_mut()), &mut f));
        });
    }

    fn _view<Q, R>(&self, key: &Q, f: impl FnOnce(&K, &V) -> R) -> Option<R>
    where
        K: Borrow<Q>,
        Q: Hash + Eq + ?Sized,
    {
        self.get(key).map(|r| {
            let (k, v) = r.pair();
            f(k, v)
        })
    }

    fn _entry(&'a self, key: K) -> Entry<'a, K, V, S> {
        let hash = self.hash_usize(&key);

        let idx = self.determine_shard(hash);

        let shard = unsafe { self._yield_write_shard(idx) };

        if let Some((kptr, vptr)) = shard.get_key_value(&key) {
            unsafe {
                let kptr: *const K = kptr;
                let vptr: *mut V = vptr.as_ptr();
                Entry::Occupied(OccupiedEntry::new(shard, key, (kptr, vptr)))
            }
        } else {
            unsafe { Entry::Vacant(VacantEntry::new(shard, key)) }
        }
    }

    fn _try_entry(&'a self, key: K) -> Option<Entry<'a, K, V, S>> {
        let hash = self.hash_usize(&key);

        let idx = self.determine_shard(hash);

        let shard = match unsafe { self._try_yield_write_shard(idx) } {
            Some(shard) => shard,
            None => return None,
        };

        if let Some((kptr, vptr)) = shard.get_key_value(&key) {
            unsafe {
                let kptr: *const K = kptr;
                let vptr: *mut V = vptr.as_ptr();

                Some(Entry::Occupied(OccupiedEntry::new(
                    shard,
                    key,
                    (kptr, vptr),
                )))
            }
        } else {
            unsafe { Some(Entry::Vacant(VacantEntry::new(shard, key))) }
        }
    }

    fn _hasher(&self) -> S {
        self.hasher.clone()
    }
}

impl<K: Eq + Hash + fmt::Debug, V: fmt::Debug, S: BuildHasher + Clone> fmt::Debug
    for DashMap<K, V, S>
{
    fn fmt(&self, f: &mut fmt::Formatter<'_>) -> fmt::Result {
        let mut pmap = f.debug_map();

        for r in self {
            let (k, v) = r.pair();

            pmap.entry(k, v);
        }

        pmap.finish()
    }
}

impl<'a, K: 'a + Eq + Hash, V: 'a, S: BuildHasher + Clone> Shl<(K, V)> for &'a DashMap<K, V, S> {
    type Output = Option<V>;

    fn shl(self, pair: (K, V)) -> Self::Output {
        self.insert(pair.0, pair.1)
    }
}

impl<'a, K: 'a + Eq + Hash, V: 'a, S: BuildHasher + Clone, Q> Shr<&Q> for &'a DashMap<K, V, S>
where
    K: Borrow<Q>,
    Q: Hash + Eq + ?Sized,
{
    type Output = Ref<'a, K, V, S>;

    fn shr(self, key: &Q) -> Self::Output {
        self.get(key).unwrap()
    }
}

impl<'a, K: 'a + Eq + Hash, V: 'a, S: BuildHasher + Clone, Q> BitOr<&Q> for &'a DashMap<K, V, S>
where
    K: Borrow<Q>,
    Q: Hash + Eq + ?Sized,
{
    type Output = RefMut<'a, K, V, S>;

    fn bitor(self, key: &Q) -> Self::Output {
        self.get_mut(key).unwrap()
    }
}

impl<'a, K: 'a + Eq + Hash, V: 'a, S: BuildHasher + Clone, Q> Sub<&Q> for &'a DashMap<K, V, S>
where
    K: Borrow<Q>,
    Q: Hash + Eq + ?Sized,
{
    type Output = Option<(K, V)>;

    fn sub(self, key: &Q) -> Self::Output {
        self.remove(key)
    }
}

impl<'a, K: 'a + Eq + Hash, V: 'a, S: BuildHasher + Clone, Q> BitAnd<&Q> for &'a DashMap<K, V, S>
where
    K: Borrow<Q>,
    Q: Hash + Eq + ?Sized,
{
    type Output = bool;

    fn bitand(self, key: &Q) -> Self::Output {
        self.contains_key(key)
    }
}

impl<K: Eq + Hash, V, S: BuildHasher + Clone> IntoIterator for DashMap<K, V, S> {
    type Item = (K, V);

    type IntoIter = OwningIter<K, V, S>;

    fn into_iter(self) -> Self::IntoIter {
        OwningIter::new(self)
    }
}

impl<'a, K: Eq + Hash, V, S: BuildHasher + Clone> IntoIterator for &'a DashMap<K, V, S> {
    type Item = RefMulti<'a, K, V, S>;

    type IntoIter = Iter<'a, K, V, S, DashMap<K, V, S>>;

    fn into_iter(self) -> Self::IntoIter {
        self.iter()
    }
}

impl<K: Eq + Hash, V, S: BuildHasher + Clone> Extend<(K, V)> for DashMap<K, V, S> {
    fn extend<I: IntoIterator<Item = (K, V)>>(&mut self, intoiter: I) {
        for pair in intoiter.into_iter() {
            self.insert(pair.0, pair.1);
        }
    }
}

impl<K: Eq + Hash, V, S: BuildHasher + Clone + Default> FromIterator<(K, V)> for DashMap<K, V, S> {
    fn from_iter<I: IntoIterator<Item = (K, V)>>(intoiter: I) -> Self {
        let mut map = DashMap::default();

        map.extend(intoiter);

        map
    }
}

#[cfg(test)]
mod tests {
    use crate::DashMap;
    use std::collections::hash_map::RandomState;

    #[test]
    fn test_basic() {
        let dm = DashMap::new();

        dm.insert(0, 0);

        assert_eq!(dm.get(&0).unwrap().value(), &0);
    }

    #[test]
    fn test_default() {
        let dm: DashMap<u32, u32> = DashMap::default();

        dm.insert(0, 0);

        assert_eq!(dm.get(&0).unwrap().value(), &0);
    }

    #[test]
    fn test_multiple_hashes() {
        let dm: DashMap<u32, u32> = DashMap::default();

        for i in 0..100 {
            dm.insert(0, i);

            dm.insert(i, i);
        }

        for i in 1..100 {
            let r = dm.get(&i).unwrap();

            assert_eq!(i, *r.value());

            assert_eq!(i, *r.key());
        }

        let r = dm.get(&0).unwrap();

        assert_eq!(99, *r.value());
    }

    #[test]
    fn test_more_complex_values() {
        #[derive(Hash, PartialEq, Debug, Clone)]

        struct T0 {
            s: String,
            u: u8,
        }

        let dm = DashMap::new();

        let range = 0..10;

        for i in range {
            let t = T0 {
                s: i.to_string(),
                u: i as u8,
            };

            dm.insert(i, t.clone());

            assert_eq!(&t, dm.get(&i).unwrap().value());
        }
    }

    #[test]
    fn test_different_hashers_randomstate() {
        let dm_hm_default: DashMap<u32, u32, RandomState> =
            DashMap::with_hasher(RandomState::new());

        for i in 0..10 {
            dm_hm_default.insert(i, i);

            assert_eq!(i, *dm_hm_default.get(&i).unwrap().value());
        }
    }

    #[test]
    fn test_map_view() {
        let dm = DashMap::new();

        let vegetables: [String; 4] = [
            "Salad".to_string(),
            "Beans".to_string(),
            "Potato".to_string(),
            "Tomato".to_string(),
        ];

        // Give it some values
        dm.insert(0, "Banana".to_string());
        dm.insert(4, "Pear".to_string());
        dm.insert(9, "Potato".to_string());
        dm.insert(12, "Chicken".to_string());

        let potato_vegetableness = dm.view(&9, |_, v| vegetables.contains(v));
        assert_eq!(potato_vegetableness, Some(true));

        let chicken_vegetableness = dm.view(&12, |_, v| vegetables.contains(v));
        assert_eq!(chicken_vegetableness, Some(false));

        let not_in_map = dm.view(&30, |_k, _v| false);
        assert_eq!(not_in_map, None);
    }

    #[test]
    fn test_try_get() {
        {
            let map = DashMap::new();
            map.insert("Johnny", 21);

            assert_eq!(*map.try_get("Johnny").unwrap(), 21);

            let _result1_locking = map.get_mut("Johnny");

            let result2 = map.try_get("Johnny");
            assert!(result2.is_locked());
        }

        {
            let map = DashMap::new();
            map.insert("Johnny", 21);

            *map.try_get_mut("Johnny").unwrap() += 1;
            assert_eq!(*map.get("Johnny").unwrap(), 22);

            let _result1_locking = map.get("Johnny");

            let result2 = map.try_get_mut("Johnny");
            assert!(result2.is_locked());
        }
    }

    #[test]
    fn test_try_reserve() {
        let mut map: DashMap<i32, i32> = DashMap::new();
        // DashMap is empty and doesn't allocate memory
        assert_eq!(map.capacity(), 0);

        map.try_reserve(10).unwrap();

        // And now map can hold at least 10 elements
        assert!(map.capacity() >= 10);
    }

    #[test]
    fn test_try_reserve_errors() {
        let mut map: DashMap<i32, i32> = DashMap::new();

        match map.try_reserve(usize::MAX) {
            Err(_) => {}
            _ => panic!("should have raised CapacityOverflow error"),
        }
    }
}

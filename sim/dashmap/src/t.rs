//! Central map trait to ease modifications and extensions down the road.

use crate::iter::{Iter, IterMut};
use crate::lock::{RwLockReadGuard, RwLockWriteGuard};
use crate::mapref::entry::Entry;
use crate::mapref::one::{Ref, RefMut};
use crate::try_result::TryResult;
use crate::HashMap;
use core::borrow::Borrow;
use core::hash::{BuildHasher, Hash};

/// Implementation detail that is exposed due to generic constraints in public types.
pub trait Map<'a, K: 'a + Eq + Hash, V: 'a, S: 'a + Clone + BuildHasher> {
    fn _shard_count(&self) -> usize;

    /// # Safety
    ///
    /// The index must not be out of bounds.
    unsafe fn _get_read_shard(&'a self, i: usize) -> &'a HashMap<K, V, S>;

    /// # Safety
    ///
    /// The index must not be out of bounds.
    unsafe fn _yield_read_shard(&'a self, i: usize) -> RwLockReadGuard<'a, HashMap<K, V, S>>;

    /// # Safety
    ///
    /// The index must not be out of bounds.
    unsafe fn _yield_write_shard(&'a self, i: usize) -> RwLockWriteGuard<'a, HashMap<K, V, S>>;

    /// # Safety
    ///
    /// The index must not be out of bounds.
    unsafe fn _try_yield_read_shard(
        &'a self,
        i: usize,
    ) -> Option<RwLockReadGuard<'a, HashMap<K, V, S>>>;

    /// # Safety
    ///
    /// The index must not be out of bounds.
    unsafe fn _try_yield_write_shard(
        &'a self,
        i: usize,
    ) -> Option<RwLockWriteGuard<'a, HashMap<K, V, S>>>;

    fn _insert(&self, key: K, value: V) -> Option<V>;

    fn _remove<Q>(&self, key: &Q) -> Option<(K, V)>
    where
        K: Borrow<Q>,
        Q: Hash + Eq + ?Sized;

    fn _remove_if<Q>(&self, key: &Q, f: impl FnOnce(&K, &V) -> bool) -> Option<(K, V)>
    where
        K: Borrow<Q>,
        Q: Hash + Eq + ?Sized;

    fn _remove_if_mut<Q>(&self, key: &Q, f: impl FnOnce(&K, &mut V) -> bool) -> Option<(K, V)>
    where
        K: Borrow<Q>,
        Q: Hash + Eq + ?Sized;

    fn _iter(&'a self) -> Iter<'a, K, V, S, Self>
    where
        Self: Sized;

    fn _iter_mut(&'a self) -> IterMut<'a, K, V, S, Self>
    where
        Self: Sized;

    fn _get<Q>(&'a self, key: &Q) -> Option<Ref<'a, K, V, S>>
    where
        K: Borrow<Q>,
        Q: Hash + Eq + ?Sized;

    fn _get_mut<Q>(&'a self, key: &Q) -> Option<RefMut<'a, K, V, S>>
    where
        K: Borrow<Q>,
        Q: Hash + Eq + ?Sized;

    fn _try_get<Q>(&'a self, key: &Q) -> TryResult<Ref<'a, K, V, S>>
    where
        K: Borrow<Q>,
        Q: Hash + Eq + ?Sized;

    fn _try_get_mut<Q>(&'a self, key: &Q) -> TryResult<RefMut<'a, K, V, S>>
    where
        K: Borrow<Q>,
        Q: Hash + Eq + ?Sized;

    fn _shrink_to_fit(&self);

    fn _retain(&self, f: impl FnMut(&K, &mut V) -> bool);

    fn _len(&self) -> usize;

    fn _capacity(&self) -> usize;

    fn _alter<Q>(&self, key: &Q, f: impl FnOnce(&K, V) -> V)
    where
        K: Borrow<Q>,
        Q: Hash + Eq + ?Sized;

    fn _alter_all(&self, f: impl FnMut(&K, V) -> V);

    fn _view<Q, R>(&self, key: &Q, f: impl FnOnce(&K, &V) -> R) -> Option<R>
    where
        K: Borrow<Q>,
        Q: Hash + Eq + ?Sized;

    fn _entry(&'a self, key: K) -> Entry<'a, K, V, S>;

    fn _try_entry(&'a self, key: K) -> Option<Entry<'a, K, V, S>>;

    fn _hasher(&self) -> S;

    // provided
    fn _clear(&self) {
        self._retain(|_, _| false)
    }

    fn _contains_key<Q>(&'a self, key: &Q) -> bool
    where
        K: Borrow<Q>,
        Q: Hash + Eq + ?Sized,
    {
        self._get(key).is_some()
    }

    fn _is_empty(&self) -> bool {
        self._len() == 0
    }
}

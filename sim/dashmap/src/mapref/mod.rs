pub mod entry;
pub mod multiple;
pub mod one;

use super::one::RefMut;
use crate::lock::RwLockWriteGuard;
use crate::util;
use crate::util::SharedValue;
use crate::HashMap;
use core::hash::{BuildHasher, Hash};
use core::mem;
use core::ptr;
use std::collections::hash_map::RandomState;

pub enum Entry<'a, K, V, S = RandomState> {
    Occupied(OccupiedEntry<'a, K, V, S>),
    Vacant(VacantEntry<'a, K, V, S>),
}

impl<'a, K: Eq + Hash, V, S: BuildHasher> Entry<'a, K, V, S> {
    /// Apply a function to the stored value if it exists.
    pub fn and_modify(self, f: impl FnOnce(&mut V)) -> Self {
        match self {
            Entry::Occupied(mut entry) => {
                f(entry.get_mut());

                Entry::Occupied(entry)
            }

            Entry::Vacant(entry) => Entry::Vacant(entry),
        }
    }

    /// Get the key of the entry.
    pub fn key(&self) -> &K {
        match *self {
            Entry::Occupied(ref entry) => entry.key(),
            Entry::Vacant(ref entry) => entry.key(),
        }
    }

    /// Into the key of the entry.
    pub fn into_key(self) -> K {
        match self {
            Entry::Occupied(entry) => entry.into_key(),
            Entry::Vacant(entry) => entry.into_key(),
        }
    }

    /// Return a mutable reference to the element if it exists,
    /// otherwise insert the default and return a mutable reference to that.
    pub fn or_default(self) -> RefMut<'a, K, V, S>
    where
        V: Default,
    {
        match self {
            Entry::Occupied(entry) => entry.into_ref(),
            Entry::Vacant(entry) => entry.insert(V::default()),
        }
    }

    /// Return a mutable reference to the element if it exists,
    /// otherwise a provided value and return a mutable reference to that.
    pub fn or_insert(self, value: V) -> RefMut<'a, K, V, S> {
        match self {
            Entry::Occupied(entry) => entry.into_ref(),
            Entry::Vacant(entry) => entry.insert(value),
        }
    }

    /// Return a mutable reference to the element if it exists,
    /// otherwise insert the result of a provided function and return a mutable reference to that.
    pub fn or_insert_with(self, value: impl FnOnce() -> V) -> RefMut<'a, K, V, S> {
        match self {
            Entry::Occupied(entry) => entry.into_ref(),
            Entry::Vacant(entry) => entry.insert(value()),
        }
    }

    pub fn or_try_insert_with<E>(
        self,
        value: impl FnOnce() -> Result<V, E>,
    ) -> Result<RefMut<'a, K, V, S>, E> {
        match self {
            Entry::Occupied(entry) => Ok(entry.into_ref()),
            Entry::Vacant(entry) => Ok(entry.insert(value()?)),
        }
    }

    /// Sets the value of the entry, and returns a reference to the inserted value.
    pub fn insert(self, value: V) -> RefMut<'a, K, V, S> {
        match self {
            Entry::Occupied(mut entry) => {
                entry.insert(value);
                entry.into_ref()
            }
            Entry::Vacant(entry) => entry.insert(value),
        }
    }

    /// Sets the value of the entry, and returns an OccupiedEntry.
    ///
    /// If you are not interested in the occupied entry,
    /// consider [`insert`] as it doesn't need to clone the key.
    ///
    /// [`insert`]: Entry::insert
    pub fn insert_entry(self, value: V) -> OccupiedEntry<'a, K, V, S>
    where
        K: Clone,
    {
        match self {
            Entry::Occupied(mut entry) => {
                entry.insert(value);
                entry
            }
            Entry::Vacant(entry) => entry.insert_entry(value),
        }
    }
}

pub struct VacantEntry<'a, K, V, S = RandomState> {
    shard: RwLockWriteGuard<'a, HashMap<K, V, S>>,
    key: K,
}

unsafe impl<'a, K: Eq + Hash + Sync, V: Sync, S: BuildHasher> Send for VacantEntry<'a, K, V, S> {}
unsafe impl<'a, K: Eq + Hash + Sync, V: Sync, S: BuildHasher> Sync for VacantEntry<'a, K, V, S> {}

impl<'a, K: Eq + Hash, V, S: BuildHasher> VacantEntry<'a, K, V, S> {
    pub(crate) unsafe fn new(shard: RwLockWriteGuard<'a, HashMap<K, V, S>>, key: K) -> Self {
        Self { shard, key }
    }

    pub fn insert(mut self, value: V) -> RefMut<'a, K, V, S> {
        unsafe {
            let c: K = ptr::read(&self.key);

            self.shard.insert(self.key, SharedValue::new(value));

            let (k, v) = self.shard.get_key_value(&c).unwrap();

            let k = util::change_lifetime_const(k);

            let v = &mut *v.as_ptr();

            let r = RefMut::new(self.shard, k, v);

            mem::forget(c);

            r
        }
    }

    /// Sets the value of the entry with the VacantEntry’s key, and returns an OccupiedEntry.
    pub fn insert_entry(mut self, value: V) -> OccupiedEntry<'a, K, V, S>
    where
        K: Clone,
    {
        unsafe {
            self.shard.insert(self.key.clone(), SharedValue::new(value));

            let (k, v) = self.shard.get_key_value(&self.key).unwrap();

            let kptr: *const K = k;
            let vptr: *mut V = v.as_ptr();
            OccupiedEntry::new(self.shard, self.key, (kptr, vptr))
        }
    }

    pub fn into_key(self) -> K {
        self.key
    }

    pub fn key(&self) -> &K {
        &self.key
    }
}

pub struct OccupiedEntry<'a, K, V, S = RandomState> {
    shard: RwLockWriteGuard<'a, HashMap<K, V, S>>,
    elem: (*const K, *mut V),
    key: K,
}

unsafe impl<'a, K: Eq + Hash + Sync, V: Sync, S: BuildHasher> Send for OccupiedEntry<'a, K, V, S> {}
unsafe impl<'a, K: Eq + Hash + Sync, V: Sync, S: BuildHasher> Sync for OccupiedEntry<'a, K, V, S> {}

impl<'a, K: Eq + Hash, V, S: BuildHasher> OccupiedEntry<'a, K, V, S> {
    pub(crate) unsafe fn new(
        shard: RwLockWriteGuard<'a, HashMap<K, V, S>>,
        key: K,
        elem: (*const K, *mut V),
    ) -> Self {
        Self { shard, elem, key }
    }

    pub fn get(&self) -> &V {
        unsafe { &*self.elem.1 }
    }

    pub fn get_mut(&mut self) -> &mut V {
        unsafe { &mut *self.elem.1 }
    }

    pub fn insert(&mut self, value: V) -> V {
        mem::replace(self.get_mut(), value)
    }

    pub fn into_ref(self) -> RefMut<'a, K, V, S> {
        unsafe { RefMut::new(self.shard, self.elem.0, self.elem.1) }
    }

    pub fn into_key(self) -> K {
        self.key
    }

    pub fn key(&self) -> &K {
        unsafe { &*self.elem.0 }
    }

    pub fn remove(mut self) -> V {
        let key = unsafe { &*self.elem.0 };
        self.shard.remove(key).unwrap().into_inner()
    }

    pub fn remove_entry(mut self) -> (K, V) {
        let key = unsafe { &*self.elem.0 };
        let (k, v) = self.shard.remove_entry(key).unwrap();
        (k, v.into_inner())
    }

    pub fn replace_entry(mut self, value: V) -> (K, V) {
        let nk = self.key;
        let key = unsafe { &*self.elem.0 };
        let (k, v) = self.shard.remove_entry(key).unwrap();
        self.shard.insert(nk, SharedValue::new(value));
        (k, v.into_inner())
    }
}

#[cfg(test)]
mod tests {
    use crate::DashMap;

    use super::*;

    #[test]
    fn test_insert_entry_into_vacant() {
        let map: DashMap<u32, u32> = DashMap::new();

        let entry = map.entry(1);

        assert!(matches!(entry, Entry::Vacant(_)));

        let entry = entry.insert_entry(2);

        assert_eq!(*entry.get(), 2);

        drop(entry);

        assert_eq!(*map.get(&1).unwrap(), 2);
    }

    #[test]
    fn test_insert_entry_into_occupied() {
        let map: DashMap<u32, u32> = DashMap::new();

        map.insert(1, 1000);

        let entry = map.entry(1);

        assert!(matches!(&entry, Entry::Occupied(entry) if *entry.get() == 1000));

        let entry = entry.insert_entry(2);

        assert_eq!(*entry.get(), 2);

        drop(entry);

        assert_eq!(*map.get(&1).unwrap(), 2);
    }
}

use crate::lock::{RwLockReadGuard, RwLockWriteGuard};
use crate::HashMap;
use core::hash::BuildHasher;
use core::hash::Hash;
use core::ops::{Deref, DerefMut};
use std::collections::hash_map::RandomState;
use std::sync::Arc;

pub struct RefMulti<'a, K, V, S = RandomState> {
    _guard: Arc<RwLockReadGuard<'a, HashMap<K, V, S>>>,
    k: *const K,
    v: *const V,
}

unsafe impl<'a, K: Eq + Hash + Sync, V: Sync, S: BuildHasher> Send for RefMulti<'a, K, V, S> {}
unsafe impl<'a, K: Eq + Hash + Sync, V: Sync, S: BuildHasher> Sync for RefMulti<'a, K, V, S> {}

impl<'a, K: Eq + Hash, V, S: BuildHasher> RefMulti<'a, K, V, S> {
    pub(crate) unsafe fn new(
        guard: Arc<RwLockReadGuard<'a, HashMap<K, V, S>>>,
        k: *const K,
        v: *const V,
    ) -> Self {
        Self {
            _guard: guard,
            k,
            v,
        }
    }

    pub fn key(&self) -> &K {
        self.pair().0
    }

    pub fn value(&self) -> &V {
        self.pair().1
    }

    pub fn pair(&self) -> (&K, &V) {
        unsafe { (&*self.k, &*self.v) }
    }
}

impl<'a, K: Eq + Hash, V, S: BuildHasher> Deref for RefMulti<'a, K, V, S> {
    type Target = V;

    fn deref(&self) -> &V {
        self.value()
    }
}

pub struct RefMutMulti<'a, K, V, S = RandomState> {
    _guard: Arc<RwLockWriteGuard<'a, HashMap<K, V, S>>>,
    k: *const K,
    v: *mut V,
}

unsafe impl<'a, K: Eq + Hash + Sync, V: Sync, S: BuildHasher> Send for RefMutMulti<'a, K, V, S> {}
unsafe impl<'a, K: Eq + Hash + Sync, V: Sync, S: BuildHasher> Sync for RefMutMulti<'a, K, V, S> {}

impl<'a, K: Eq + Hash, V, S: BuildHasher> RefMutMulti<'a, K, V, S> {
    pub(crate) unsafe fn new(
        guard: Arc<RwLockWriteGuard<'a, HashMap<K, V, S>>>,
        k: *const K,
        v: *mut V,
    ) -> Self {
        Self {
            _guard: guard,
            k,
            v,
        }
    }

    pub fn key(&self) -> &K {
        self.pair().0
    }

    pub fn value(&self) -> &V {
        self.pair().1
    }

    pub fn value_mut(&mut self) -> &mut V {
        self.pair_mut().1
    }

    pub fn pair(&self) -> (&K, &V) {
        unsafe { (&*self.k, &*self.v) }
    }

    pub fn pair_mut(&mut self) -> (&K, &mut V) {
        unsafe { (&*self.k, &mut *self.v) }
    }
}

impl<'a, K: Eq + Hash, V, S: BuildHasher> Deref for RefMutMulti<'a, K, V, S> {
    type Target = V;

    fn deref(&self) -> &V {
        self.value()
    }
}

impl<'a, K: Eq + Hash, V, S: BuildHasher> DerefMut for RefMutMulti<'a, K, V, S> {
    fn deref_mut(&mut self) -> &mut V {
        self.value_mut()
    }
}

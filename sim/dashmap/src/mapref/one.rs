use crate::lock::{RwLockReadGuard, RwLockWriteGuard};
use crate::HashMap;
use core::hash::{BuildHasher, Hash};
use core::ops::{Deref, DerefMut};
use std::collections::hash_map::RandomState;
use std::fmt::{Debug, Formatter};

pub struct Ref<'a, K, V, S = RandomState> {
    _guard: RwLockReadGuard<'a, HashMap<K, V, S>>,
    k: *const K,
    v: *const V,
}

unsafe impl<'a, K: Eq + Hash + Sync, V: Sync, S: BuildHasher> Send for Ref<'a, K, V, S> {}
unsafe impl<'a, K: Eq + Hash + Sync, V: Sync, S: BuildHasher> Sync for Ref<'a, K, V, S> {}

impl<'a, K: Eq + Hash, V, S: BuildHasher> Ref<'a, K, V, S> {
    pub(crate) unsafe fn new(
        guard: RwLockReadGuard<'a, HashMap<K, V, S>>,
        k: *const K,
        v: *const V,
    ) -> Self {
        Self {
            _guard: guard,
            k,
            v,
        }
    }

    pub fn key(&self) -> &K {
        self.pair().0
    }

    pub fn value(&self) -> &V {
        self.pair().1
    }

    pub fn pair(&self) -> (&K, &V) {
        unsafe { (&*self.k, &*self.v) }
    }

    pub fn map<F, T>(self, f: F) -> MappedRef<'a, K, V, T, S>
    where
        F: FnOnce(&V) -> &T,
    {
        MappedRef {
            _guard: self._guard,
            k: self.k,
            v: f(unsafe { &*self.v }),
        }
    }

    pub fn try_map<F, T>(self, f: F) -> Result<MappedRef<'a, K, V, T, S>, Self>
    where
        F: FnOnce(&V) -> Option<&T>,
    {
        if let Some(v) = f(unsafe { &*self.v }) {
            Ok(MappedRef {
                _guard: self._guard,
                k: self.k,
                v,
            })
        } else {
            Err(self)
        }
    }
}

impl<'a, K: Eq + Hash + Debug, V: Debug, S: BuildHasher> Debug for Ref<'a, K, V, S> {
    fn fmt(&self, f: &mut Formatter<'_>) -> std::fmt::Result {
        f.debug_struct("Ref")
            .field("k", &self.k)
            .field("v", &self.v)
            .finish()
    }
}

impl<'a, K: Eq + Hash, V, S: BuildHasher> Deref for Ref<'a, K, V, S> {
    type Target = V;

    fn deref(&self) -> &V {
        self.value()
    }
}

pub struct RefMut<'a, K, V, S = RandomState> {
    guard: RwLockWriteGuard<'a, HashMap<K, V, S>>,
    k: *const K,
    v: *mut V,
}

unsafe impl<'a, K: Eq + Hash + Sync, V: Sync, S: BuildHasher> Send for RefMut<'a, K, V, S> {}
unsafe impl<'a, K: Eq + Hash + Sync, V: Sync, S: BuildHasher> Sync for RefMut<'a, K, V, S> {}

impl<'a, K: Eq + Hash, V, S: BuildHasher> RefMut<'a, K, V, S> {
    pub(crate) unsafe fn new(
        guard: RwLockWriteGuard<'a, HashMap<K, V, S>>,
        k: *const K,
        v: *mut V,
    ) -> Self {
        Self { guard, k, v }
    }

    pub fn key(&self) -> &K {
        self.pair().0
    }

    pub fn value(&self) -> &V {
        self.pair().1
    }

    pub fn value_mut(&mut self) -> &mut V {
        self.pair_mut().1
    }

    pub fn pair(&self) -> (&K, &V) {
        unsafe { (&*self.k, &*self.v) }
    }

    pub fn pair_mut(&mut self) -> (&K, &mut V) {
        unsafe { (&*self.k, &mut *self.v) }
    }

    pub fn downgrade(self) -> Ref<'a, K, V, S> {
        unsafe { Ref::new(RwLockWriteGuard::downgrade(self.guard), self.k, self.v) }
    }

    pub fn map<F, T>(self, f: F) -> MappedRefMut<'a, K, V, T, S>
    where
        F: FnOnce(&mut V) -> &mut T,
    {
        MappedRefMut {
            _guard: self.guard,
            k: self.k,
            v: f(unsafe { &mut *self.v }),
        }
    }

    pub fn try_map<F, T>(self, f: F) -> Result<MappedRefMut<'a, K, V, T, S>, Self>
    where
        F: FnOnce(&mut V) -> Option<&mut T>,
    {
        let v = match f(unsafe { &mut *(self.v as *mut _) }) {
            Some(v) => v,
            None => return Err(self),
        };
        let guard = self.guard;
        let k = self.k;
        Ok(MappedRefMut {
            _guard: guard,
            k,
            v,
        })
    }
}

impl<'a, K: Eq + Hash + Debug, V: Debug, S: BuildHasher> Debug for RefMut<'a, K, V, S> {
    fn fmt(&self, f: &mut Formatter<'_>) -> std::fmt::Result {
        f.debug_struct("RefMut")
            .field("k", &self.k)
            .field("v", &self.v)
            .finish()
    }
}

impl<'a, K: Eq + Hash, V, S: BuildHasher> Deref for RefMut<'a, K, V, S> {
    type Target = V;

    fn deref(&self) -> &V {
        self.value()
    }
}

impl<'a, K: Eq + Hash, V, S: BuildHasher> DerefMut for RefMut<'a, K, V, S> {
    fn deref_mut(&mut self) -> &mut V {
        self.value_mut()
    }
}

pub struct MappedRef<'a, K, V, T, S = RandomState> {
    _guard: RwLockReadGuard<'a, HashMap<K, V, S>>,
    k: *const K,
    v: *const T,
}

impl<'a, K: Eq + Hash, V, T, S: BuildHasher> MappedRef<'a, K, V, T, S> {
    pub fn key(&self) -> &K {
        self.pair().0
    }

    pub fn value(&self) -> &T {
        self.pair().1
    }

    pub fn pair(&self) -> (&K, &T) {
        unsafe { (&*self.k, &*self.v) }
    }

    pub fn map<F, T2>(self, f: F) -> MappedRef<'a, K, V, T2, S>
    where
        F: FnOnce(&T) -> &T2,
    {
        MappedRef {
            _guard: self._guard,
            k: self.k,
            v: f(unsafe { &*self.v }),
        }
    }

    pub fn try_map<F, T2>(self, f: F) -> Result<MappedRef<'a, K, V, T2, S>, Self>
    where
        F: FnOnce(&T) -> Option<&T2>,
    {
        let v = match f(unsafe { &*self.v }) {
            Some(v) => v,
            None => return Err(self),
        };
        let guard = self._guard;
        Ok(MappedRef {
            _guard: guard,
            k: self.k,
            v,
        })
    }
}

impl<'a, K: Eq + Hash + Debug, V, T: Debug, S: BuildHasher> Debug for MappedRef<'a, K, V, T, S> {
    fn fmt(&self, f: &mut Formatter<'_>) -> std::fmt::Result {
        f.debug_struct("MappedRef")
            .field("k", &self.k)
            .field("v", &self.v)
            .finish()
    }
}

impl<'a, K: Eq + Hash, V, T, S: BuildHasher> Deref for MappedRef<'a, K, V, T, S> {
    type Target = T;

    fn deref(&self) -> &T {
        self.value()
    }
}

impl<'a, K: Eq + Hash, V, T: std::fmt::Display> std::fmt::Display for MappedRef<'a, K, V, T> {
    fn fmt(&self, f: &mut std::fmt::Formatter<'_>) -> std::fmt::Result {
        std::fmt::Display::fmt(self.value(), f)
    }
}

impl<'a, K: Eq + Hash, V, T: AsRef<TDeref>, TDeref: ?Sized> AsRef<TDeref>
    for MappedRef<'a, K, V, T>
{
    fn as_ref(&self) -> &TDeref {
        self.value().as_ref()
    }
}

pub struct MappedRefMut<'a, K, V, T, S = RandomState> {
    _guard: RwLockWriteGuard<'a, HashMap<K, V, S>>,
    k: *const K,
    v: *mut T,
}

impl<'a, K: Eq + Hash, V, T, S: BuildHasher> MappedRefMut<'a, K, V, T, S> {
    pub fn key(&self) -> &K {
        self.pair().0
    }

    pub fn value(&self) -> &T {
        self.pair().1
    }

    pub fn value_mut(&mut self) -> &mut T {
        self.pair_mut().1
    }

    pub fn pair(&self) -> (&K, &T) {
        unsafe { (&*self.k, &*self.v) }
    }

    pub fn pair_mut(&mut self) -> (&K, &mut T) {
        unsafe { (&*self.k, &mut *self.v) }
    }

    pub fn map<F, T2>(self, f: F) -> MappedRefMut<'a, K, V, T2, S>
    where
        F: FnOnce(&mut T) -> &mut T2,
    {
        MappedRefMut {
            _guard: self._guard,
            k: self.k,
            v: f(unsafe { &mut *self.v }),
        }
    }

    pub fn try_map<F, T2>(self, f: F) -> Result<MappedRefMut<'a, K, V, T2, S>, Self>
    where
        F: FnOnce(&mut T) -> Option<&mut T2>,
    {
        let v = match f(unsafe { &mut *(self.v as *mut _) }) {
            Some(v) => v,
            None => return Err(self),
        };
        let guard = self._guard;
        let k = self.k;
        Ok(MappedRefMut {
            _guard: guard,
            k,
            v,
        })
    }
}

impl<'a, K: Eq + Hash + Debug, V, T: Debug, S: BuildHasher> Debug for MappedRefMut<'a, K, V, T, S> {
    fn fmt(&self, f: &mut Formatter<'_>) -> std::fmt::Result {
        f.debug_struct("MappedRefMut")
            .field("k", &self.k)
            .field("v", &self.v)
            .finish()
    }
}

impl<'a, K: Eq + Hash, V, T, S: BuildHasher> Deref for MappedRefMut<'a, K, V, T, S> {
    type Target = T;

    fn deref(&self) -> &T {
        self.value()
    }
}

impl<'a, K: Eq + Hash, V, T, S: BuildHasher> DerefMut for MappedRefMut<'a, K, V, T, S> {
    fn deref_mut(&mut self) -> &mut T {
        self.value_mut()
    }
}

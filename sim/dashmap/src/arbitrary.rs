use arbitrary::{Arbitrary, Unstructured};
use core::hash::BuildHasher;

impl<'a, K, V, S> Arbitrary<'a> for crate::DashMap<K, V, S>
where
    K: Eq + std::hash::Hash + Arbitrary<'a>,
    V: Arbitrary<'a>,
    S: Default + BuildHasher + Clone,
{
    fn arbitrary(u: &mut Unstructured<'a>) -> arbitrary::Result<Self> {
        u.arbitrary_iter()?.collect()
    }
}

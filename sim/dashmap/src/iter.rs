use super::mapref::multiple::{RefMulti, RefMutMulti};
use super::util;
use crate::lock::{RwLockReadGuard, RwLockWriteGuard};
use crate::t::Map;
use crate::util::SharedValue;
use crate::{DashMap, HashMap};
use core::hash::{BuildHasher, Hash};
use core::mem;
use hashbrown::hash_map;
use std::collections::hash_map::RandomState;
use std::sync::Arc;

/// Iterator over a DashMap yielding key value pairs.
///
/// # Examples
///
/// ```
/// use dashmap::DashMap;
///
/// let map = DashMap::new();
/// map.insert("hello", "world");
/// map.insert("alex", "steve");
/// let pairs: Vec<(&'static str, &'static str)> = map.into_iter().collect();
/// assert_eq!(pairs.len(), 2);
/// ```
pub struct OwningIter<K, V, S = RandomState> {
    map: DashMap<K, V, S>,
    shard_i: usize,
    current: Option<GuardOwningIter<K, V>>,
}

impl<K: Eq + Hash, V, S: BuildHasher + Clone> OwningIter<K, V, S> {
    pub(crate) fn new(map: DashMap<K, V, S>) -> Self {
        Self {
            map,
            shard_i: 0,
            current: None,
        }
    }
}

type GuardOwningIter<K, V> = hash_map::IntoIter<K, SharedValue<V>>;

impl<K: Eq + Hash, V, S: BuildHasher + Clone> Iterator for OwningIter<K, V, S> {
    type Item = (K, V);

    fn next(&mut self) -> Option<Self::Item> {
        loop {
            if let Some(current) = self.current.as_mut() {
                if let Some((k, v)) = current.next() {
                    return Some((k, v.into_inner()));
                }
            }

            if self.shard_i == self.map._shard_count() {
                return None;
            }

            //let guard = unsafe { self.map._yield_read_shard(self.shard_i) };
            let mut shard_wl = unsafe { self.map._yield_write_shard(self.shard_i) };

            let hasher = self.map._hasher();

            let map = mem::replace(&mut *shard_wl, HashMap::with_hasher(hasher));

            drop(shard_wl);

            let iter = map.into_iter();

            //unsafe { ptr::write(&mut self.current, Some((arcee, iter))); }
            self.current = Some(iter);

            self.shard_i += 1;
        }
    }
}

unsafe impl<K, V, S> Send for OwningIter<K, V, S>
where
    K: Eq + Hash + Send,
    V: Send,
    S: BuildHasher + Clone + Send,
{
}

unsafe impl<K, V, S> Sync for OwningIter<K, V, S>
where
    K: Eq + Hash + Sync,
    V: Sync,
    S: BuildHasher + Clone + Sync,
{
}

type GuardIter<'a, K, V, S> = (
    Arc<RwLockReadGuard<'a, HashMap<K, V, S>>>,
    hash_map::Iter<'a, K, SharedValue<V>>,
);

type GuardIterMut<'a, K, V, S> = (
    Arc<RwLockWriteGuard<'a, HashMap<K, V, S>>>,
    hash_map::IterMut<'a, K, SharedValue<V>>,
);

/// Iterator over a DashMap yielding immutable references.
///
/// # Examples
///
/// ```
/// use dashmap::DashMap;
///
/// let map = DashMap::new();
/// map.insert("hello", "world");
/// assert_eq!(map.iter().count(), 1);
/// ```
pub struct Iter<'a, K, V, S = RandomState, M = DashMap<K, V, S>> {
    map: &'a M,
    shard_i: usize,
    current: Option<GuardIter<'a, K, V, S>>,
}

impl<'i, K: Clone + Hash + Eq, V: Clone, S: Clone + BuildHasher> Clone for Iter<'i, K, V, S> {
    fn clone(&self) -> Self {
        Iter::new(self.map)
    }
}

unsafe impl<'a, 'i, K, V, S, M> Send for Iter<'i, K, V, S, M>
where
    K: 'a + Eq + Hash + Send,
    V: 'a + Send,
    S: 'a + BuildHasher + Clone,
    M: Map<'a, K, V, S>,
{
}

unsafe impl<'a, 'i, K, V, S, M> Sync for Iter<'i, K, V, S, M>
where
    K: 'a + Eq + Hash + Sync,
    V: 'a + Sync,
    S: 'a + BuildHasher + Clone,
    M: Map<'a, K, V, S>,
{
}

impl<'a, K: Eq + Hash, V, S: 'a + BuildHasher + Clone, M: Map<'a, K, V, S>> Iter<'a, K, V, S, M> {
    pub(crate) fn new(map: &'a M) -> Self {
        Self {
            map,
            shard_i: 0,
            current: None,
        }
    }
}

impl<'a, K: Eq + Hash, V, S: 'a + BuildHasher + Clone, M: Map<'a, K, V, S>> Iterator
    for Iter<'a, K, V, S, M>
{
    type Item = RefMulti<'a, K, V, S>;

    fn next(&mut self) -> Option<Self::Item> {
        loop {
            if let Some(current) = self.current.as_mut() {
                if let Some((k, v)) = current.1.next() {
                    let guard = current.0.clone();

                    return unsafe { Some(RefMulti::new(guard, k, v.get())) };
                }
            }

            if self.shard_i == self.map._shard_count() {
                return None;
            }

            let guard = unsafe { self.map._yield_read_shard(self.shard_i) };

            let sref: &HashMap<K, V, S> = unsafe { util::change_lifetime_const(&*guard) };

            let iter = sref.iter();

            self.current = Some((Arc::new(guard), iter));

            self.shard_i += 1;
        }
    }
}

/// Iterator over a DashMap yielding mutable references.
///
/// # Examples
///
/// ```
/// use dashmap::DashMap;
///
/// let map = DashMap::new();
/// map.insert("Johnny", 21);
/// map.iter_mut().for_each(|mut r| *r += 1);
/// assert_eq!(*map.get("Johnny").unwrap(), 22);
/// ```
pub struct IterMut<'a, K, V, S = RandomState, M = DashMap<K, V, S>> {
    map: &'a M,
    shard_i: usize,
    current: Option<GuardIterMut<'a, K, V, S>>,
}

unsafe impl<'a, 'i, K, V, S, M> Send for IterMut<'i, K, V, S, M>
where
    K: 'a + Eq + Hash + Send,
    V: 'a + Send,
    S: 'a + BuildHasher + Clone,
    M: Map<'a, K, V, S>,
{
}

unsafe impl<'a, 'i, K, V, S, M> Sync for IterMut<'i, K, V, S, M>
where
    K: 'a + Eq + Hash + Sync,
    V: 'a + Sync,
    S: 'a + BuildHasher + Clone,
    M: Map<'a, K, V, S>,
{
}

impl<'a, K: Eq + Hash, V, S: 'a + BuildHasher + Clone, M: Map<'a, K, V, S>>
    IterMut<'a, K, V, S, M>
{
    pub(crate) fn new(map: &'a M) -> Self {
        Self {
            map,
            shard_i: 0,
            current: None,
        }
    }
}

impl<'a, K: Eq + Hash, V, S: 'a + BuildHasher + Clone, M: Map<'a, K, V, S>> Iterator
    for IterMut<'a, K, V, S, M>
{
    type Item = RefMutMulti<'a, K, V, S>;

    fn next(&mut self) -> Option<Self::Item> {
        loop {
            if let Some(current) = self.current.as_mut() {
                if let Some((k, v)) = current.1.next() {
                    let guard = current.0.clone();

                    unsafe {
                        let k = util::change_lifetime_const(k);

                        let v = &mut *v.as_ptr();

                        return Some(RefMutMulti::new(guard, k, v));
                    }
                }
            }

            if self.shard_i == self.map._shard_count() {
                return None;
            }

            let mut guard = unsafe { self.map._yield_write_shard(self.shard_i) };

            let sref: &mut HashMap<K, V, S> = unsafe { util::change_lifetime_mut(&mut *guard) };

            let iter = sref.iter_mut();

            self.current = Some((Arc::new(guard), iter));

            self.shard_i += 1;
        }
    }
}

#[cfg(test)]
mod tests {
    use crate::DashMap;

    #[test]
    fn iter_mut_manual_count() {
        let map = DashMap::new();

        map.insert("Johnny", 21);

        assert_eq!(map.len(), 1);

        let mut c = 0;

        for shard in map.shards() {
            c += shard.write().iter_mut().count();
        }

        assert_eq!(c, 1);
    }

    #[test]
    fn iter_mut_count() {
        let map = DashMap::new();

        map.insert("Johnny", 21);

        assert_eq!(map.len(), 1);

        assert_eq!(map.iter_mut().count(), 1);
    }

    #[test]
    fn iter_count() {
        let map = DashMap::new();

        map.insert("Johnny", 21);

        assert_eq!(map.len(), 1);

        assert_eq!(map.iter().count(), 1);
    }
}

use crate::mapref;
use core::hash::{BuildHasher, Hash};
use core::ops::Deref;
use std::collections::hash_map::RandomState;
pub struct RefMulti<'a, K, S = RandomState> {
    inner: mapref::multiple::RefMulti<'a, K, (), S>,
}

impl<'a, K: Eq + Hash, S: BuildHasher> RefMulti<'a, K, S> {
    pub(crate) fn new(inner: mapref::multiple::RefMulti<'a, K, (), S>) -> Self {
        Self { inner }
    }

    pub fn key(&self) -> &K {
        self.inner.key()
    }
}

impl<'a, K: Eq + Hash, S: BuildHasher> Deref for RefMulti<'a, K, S> {
    type Target = K;

    fn deref(&self) -> &K {
        self.key()
    }
}

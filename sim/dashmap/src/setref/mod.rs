pub mod multiple;
pub mod one;

use crate::mapref;
use core::hash::{BuildHasher, Hash};
use core::ops::Deref;
use std::collections::hash_map::RandomState;
pub struct Ref<'a, K, S = RandomState> {
    inner: mapref::one::Ref<'a, K, (), S>,
}

impl<'a, K: Eq + Hash, S: BuildHasher> Ref<'a, K, S> {
    pub(crate) fn new(inner: mapref::one::Ref<'a, K, (), S>) -> Self {
        Self { inner }
    }

    pub fn key(&self) -> &K {
        self.inner.key()
    }
}

impl<'a, K: Eq + Hash, S: BuildHasher> Deref for Ref<'a, K, S> {
    type Target = K;

    fn deref(&self) -> &K {
        self.key()
    }
}

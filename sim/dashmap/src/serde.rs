use crate::{mapref, setref, DashMap, DashSet};
use core::fmt;
use core::hash::{BuildHasher, Hash};
use core::marker::PhantomData;
use serde::de::{Deserialize, MapAccess, SeqAccess, Visitor};
use serde::ser::{Serialize, SerializeMap, SerializeSeq, Serializer};
use serde::Deserializer;

pub struct DashMapVisitor<K, V, S> {
    marker: PhantomData<fn() -> DashMap<K, V, S>>,
}

impl<K, V, S> DashMapVisitor<K, V, S>
where
    K: Eq + Hash,
    S: BuildHasher + Clone,
{
    fn new() -> Self {
        DashMapVisitor {
            marker: PhantomData,
        }
    }
}

impl<'de, K, V, S> Visitor<'de> for DashMapVisitor<K, V, S>
where
    K: Deserialize<'de> + Eq + Hash,
    V: Deserialize<'de>,
    S: BuildHasher + Clone + Default,
{
    type Value = DashMap<K, V, S>;

    fn expecting(&self, formatter: &mut fmt::Formatter) -> fmt::Result {
        formatter.write_str("a DashMap")
    }

    fn visit_map<M>(self, mut access: M) -> Result<Self::Value, M::Error>
    where
        M: MapAccess<'de>,
    {
        let map =
            DashMap::with_capacity_and_hasher(access.size_hint().unwrap_or(0), Default::default());

        while let Some((key, value)) = access.next_entry()? {
            map.insert(key, value);
        }

        Ok(map)
    }
}

impl<'de, K, V, S> Deserialize<'de> for DashMap<K, V, S>
where
    K: Deserialize<'de> + Eq + Hash,
    V: Deserialize<'de>,
    S: BuildHasher + Clone + Default,
{
    fn deserialize<D>(deserializer: D) -> Result<Self, D::Error>
    where
        D: Deserializer<'de>,
    {
        deserializer.deserialize_map(DashMapVisitor::<K, V, S>::new())
    }
}

impl<K, V, H> Serialize for DashMap<K, V, H>
where
    K: Serialize + Eq + Hash,
    V: Serialize,
    H: BuildHasher + Clone,
{
    fn serialize<S>(&self, serializer: S) -> Result<S::Ok, S::Error>
    where
        S: Serializer,
    {
        let mut map = serializer.serialize_map(Some(self.len()))?;

        for ref_multi in self.iter() {
            map.serialize_entry(ref_multi.key(), ref_multi.value())?;
        }

        map.end()
    }
}

pub struct DashSetVisitor<K, S> {
    marker: PhantomData<fn() -> DashSet<K, S>>,
}

impl<K, S> DashSetVisitor<K, S>
where
    K: Eq + Hash,
    S: BuildHasher + Clone,
{
    fn new() -> Self {
        DashSetVisitor {
            marker: PhantomData,
        }
    }
}

impl<'de, K, S> Visitor<'de> for DashSetVisitor<K, S>
where
    K: Deserialize<'de> + Eq + Hash,
    S: BuildHasher + Clone + Default,
{
    type Value = DashSet<K, S>;

    fn expecting(&self, formatter: &mut fmt::Formatter) -> fmt::Result {
        formatter.write_str("a DashSet")
    }

    fn visit_seq<M>(self, mut access: M) -> Result<Self::Value, M::Error>
    where
        M: SeqAccess<'de>,
    {
        let map =
            DashSet::with_capacity_and_hasher(access.size_hint().unwrap_or(0), Default::default());

        while let Some(key) = access.next_element()? {
            map.insert(key);
        }

        Ok(map)
    }
}

impl<'de, K, S> Deserialize<'de> for DashSet<K, S>
where
    K: Deserialize<'de> + Eq + Hash,
    S: BuildHasher + Clone + Default,
{
    fn deserialize<D>(deserializer: D) -> Result<Self, D::Error>
    where
        D: Deserializer<'de>,
    {
        deserializer.deserialize_seq(DashSetVisitor::<K, S>::new())
    }
}

impl<K, H> Serialize for DashSet<K, H>
where
    K: Serialize + Eq + Hash,
    H: BuildHasher + Clone,
{
    fn serialize<S>(&self, serializer: S) -> Result<S::Ok, S::Error>
    where
        S: Serializer,
    {
        let mut seq = serializer.serialize_seq(Some(self.len()))?;

        for ref_multi in self.iter() {
            seq.serialize_element(ref_multi.key())?;
        }

        seq.end()
    }
}

macro_rules! serialize_impl {
    () => {
        fn serialize<Ser>(&self, serializer: Ser) -> Result<Ser::Ok, Ser::Error>
        where
            Ser: serde::Serializer,
        {
            std::ops::Deref::deref(self).serialize(serializer)
        }
    };
}

// Map
impl<'a, K: Eq + Hash, V: Serialize, S: BuildHasher> Serialize
    for mapref::multiple::RefMulti<'a, K, V, S>
{
    serialize_impl! {}
}

impl<'a, K: Eq + Hash, V: Serialize, S: BuildHasher> Serialize
    for mapref::multiple::RefMutMulti<'a, K, V, S>
{
    serialize_impl! {}
}

impl<'a, K: Eq + Hash, V: Serialize, S: BuildHasher> Serialize for mapref::one::Ref<'a, K, V, S> {
    serialize_impl! {}
}

impl<'a, K: Eq + Hash, V: Serialize, S: BuildHasher> Serialize
    for mapref::one::RefMut<'a, K, V, S>
{
    serialize_impl! {}
}

impl<'a, K: Eq + Hash, V, T: Serialize, S: BuildHasher> Serialize
    for mapref::one::MappedRef<'a, K, V, T, S>
{
    serialize_impl! {}
}

impl<'a, K: Eq + Hash, V, T: Serialize, S: BuildHasher> Serialize
    for mapref::one::MappedRefMut<'a, K, V, T, S>
{
    serialize_impl! {}
}

// Set
impl<'a, V: Hash + Eq + Serialize, S: BuildHasher> Serialize
    for setref::multiple::RefMulti<'a, V, S>
{
    serialize_impl! {}
}

impl<'a, V: Hash + Eq + Serialize, S: BuildHasher> Serialize for setref::one::Ref<'a, V, S> {
    serialize_impl! {}
}

/// Represents the result of a non-blocking read from a [DashMap](crate::DashMap).
#[derive(Debug)]
pub enum TryResult<R> {
    /// The value was present in the map, and the lock for the shard was successfully obtained.
    Present(R),
    /// The shard wasn't locked, and the value wasn't present in the map.
    Absent,
    /// The shard was locked.
    Locked,
}

impl<R> TryResult<R> {
    /// Returns `true` if the value was present in the map, and the lock for the shard was successfully obtained.
    pub fn is_present(&self) -> bool {
        matches!(self, TryResult::Present(_))
    }

    /// Returns `true` if the shard wasn't locked, and the value wasn't present in the map.
    pub fn is_absent(&self) -> bool {
        matches!(self, TryResult::Absent)
    }

    /// Returns `true` if the shard was locked.
    pub fn is_locked(&self) -> bool {
        matches!(self, TryResult::Locked)
    }

    /// If `self` is [Present](TryResult::Present), returns the reference to the value in the map.
    /// Panics if `self` is not [Present](TryResult::Present).
    pub fn unwrap(self) -> R {
        match self {
            TryResult::Present(r) => r,
            TryResult::Locked => panic!("Called unwrap() on TryResult::Locked"),
            TryResult::Absent => panic!("Called unwrap() on TryResult::Absent"),
        }
    }

    /// If `self` is [Present](TryResult::Present), returns the reference to the value in the map.
    /// If `self` is not [Present](TryResult::Present), returns `None`.
    pub fn try_unwrap(self) -> Option<R> {
        match self {
            TryResult::Present(r) => Some(r),
            _ => None,
        }
    }
}

use crate::lock::RwLock;
use crate::t::Map;
use crate::{DashMap, HashMap};
use cfg_if::cfg_if;
use core::borrow::Borrow;
use core::fmt;
use core::hash::{BuildHasher, Hash};
use std::collections::hash_map::RandomState;

/// A read-only view into a `DashMap`. Allows to obtain raw references to the stored values.
pub struct ReadOnlyView<K, V, S = RandomState> {
    pub(crate) map: DashMap<K, V, S>,
}

impl<K: Eq + Hash + Clone, V: Clone, S: Clone> Clone for ReadOnlyView<K, V, S> {
    fn clone(&self) -> Self {
        Self {
            map: self.map.clone(),
        }
    }
}

impl<K: Eq + Hash + fmt::Debug, V: fmt::Debug, S: BuildHasher + Clone> fmt::Debug
    for ReadOnlyView<K, V, S>
{
    fn fmt(&self, f: &mut fmt::Formatter<'_>) -> fmt::Result {
        self.map.fmt(f)
    }
}

impl<K, V, S> ReadOnlyView<K, V, S> {
    pub(crate) fn new(map: DashMap<K, V, S>) -> Self {
        Self { map }
    }

    /// Consumes this `ReadOnlyView`, returning the underlying `DashMap`.
    pub fn into_inner(self) -> DashMap<K, V, S> {
        self.map
    }
}

impl<'a, K: 'a + Eq + Hash, V: 'a, S: BuildHasher + Clone> ReadOnlyView<K, V, S> {
    /// Returns the number of elements in the map.
    pub fn len(&self) -> usize {
        self.map.len()
    }

    /// Returns `true` if the map contains no elements.
    pub fn is_empty(&self) -> bool {
        self.map.is_empty()
    }

    /// Returns the number of elements the map can hold without reallocating.
    pub fn capacity(&self) -> usize {
        self.map.capacity()
    }

    /// Returns `true` if the map contains a value for the specified key.
    pub fn contains_key<Q>(&'a self, key: &Q) -> bool
    where
        K: Borrow<Q>,
        Q: Hash + Eq + ?Sized,
    {
        let hash = self.map.hash_usize(&key);

        let idx = self.map.determine_shard(hash);

        let shard = unsafe { self.map._get_read_shard(idx) };

        shard.contains_key(key)
    }

    /// Returns a reference to the value corresponding to the key.
    pub fn get<Q>(&'a self, key: &Q) -> Option<&'a V>
    where
        K: Borrow<Q>,
        Q: Hash + Eq + ?Sized,
    {
        let hash = self.map.hash_usize(&key);

        let idx = self.map.determine_shard(hash);

        let shard = unsafe { self.map._get_read_shard(idx) };

        shard.get(key).map(|v| v.get())
    }

    /// Returns the key-value pair corresponding to the supplied key.
    pub fn get_key_value<Q>(&'a self, key: &Q) -> Option<(&'a K, &'a V)>
    where
        K: Borrow<Q>,
        Q: Hash + Eq + ?Sized,
    {
        let hash = self.map.hash_usize(&key);

        let idx = self.map.determine_shard(hash);

        let shard = unsafe { self.map._get_read_shard(idx) };

        shard.get_key_value(key).map(|(k, v)| (k, v.get()))
    }

    fn shard_read_iter(&'a self) -> impl Iterator<Item = &'a HashMap<K, V, S>> + 'a {
        (0..self.map._shard_count())
            .map(move |shard_i| unsafe { self.map._get_read_shard(shard_i) })
    }

    /// An iterator visiting all key-value pairs in arbitrary order. The iterator element type is `(&'a K, &'a V)`.
    pub fn iter(&'a self) -> impl Iterator<Item = (&'a K, &'a V)> + 'a {
        self.shard_read_iter()
            .flat_map(|shard| shard.iter())
            .map(|(k, v)| (k, v.get()))
    }

    /// An iterator visiting all keys in arbitrary order. The iterator element type is `&'a K`.
    pub fn keys(&'a self) -> impl Iterator<Item = &'a K> + 'a {
        self.shard_read_iter().flat_map(|shard| shard.keys())
    }

    /// An iterator visiting all values in arbitrary order. The iterator element type is `&'a V`.
    pub fn values(&'a self) -> impl Iterator<Item = &'a V> + 'a {
        self.shard_read_iter()
            .flat_map(|shard| shard.values())
            .map(|v| v.get())
    }

    cfg_if! {
        if #[cfg(feature = "raw-api")] {
            /// Allows you to peek at the inner shards that store your data.
            /// You should probably not use this unless you know what you are doing.
            ///
            /// Requires the `raw-api` feature to be enabled.
            ///
            /// # Examples
            ///
            /// ```
            /// use dashmap::DashMap;
            ///
            /// let map = DashMap::<(), ()>::new().into_read_only();
            /// println!("Amount of shards: {}", map.shards().len());
            /// ```
            pub fn shards(&self) -> &[RwLock<HashMap<K, V, S>>] {
                &self.map.shards
            }
        } else {
            #[allow(dead_code)]
            pub(crate) fn shards(&self) -> &[RwLock<HashMap<K, V, S>>] {
                &self.map.shards
            }
        }
    }
}

#[cfg(test)]

mod tests {

    use crate::DashMap;

    fn construct_sample_map() -> DashMap<i32, String> {
        let map = DashMap::new();

        map.insert(1, "one".to_string());

        map.insert(10, "ten".to_string());

        map.insert(27, "twenty seven".to_string());

        map.insert(45, "forty five".to_string());

        map
    }

    #[test]

    fn test_properties() {
        let map = construct_sample_map();

        let view = map.clone().into_read_only();

        assert_eq!(view.is_empty(), map.is_empty());

        assert_eq!(view.len(), map.len());

        assert_eq!(view.capacity(), map.capacity());

        let new_map = view.into_inner();

        assert_eq!(new_map.is_empty(), map.is_empty());

        assert_eq!(new_map.len(), map.len());

        assert_eq!(new_map.capacity(), map.capacity());
    }

    #[test]

    fn test_get() {
        let map = construct_sample_map();

        let view = map.clone().into_read_only();

        for key in map.iter().map(|entry| *entry.key()) {
            assert!(view.contains_key(&key));

            let map_entry = map.get(&key).unwrap();

            assert_eq!(view.get(&key).unwrap(), map_entry.value());

            let key_value: (&i32, &String) = view.get_key_value(&key).unwrap();

            assert_eq!(key_value.0, map_entry.key());

            assert_eq!(key_value.1, map_entry.value());
        }
    }

    #[test]

    fn test_iters() {
        let map = construct_sample_map();

        let view = map.clone().into_read_only();

        let mut visited_items = Vec::new();

        for (key, value) in view.iter() {
            map.contains_key(key);

            let map_entry = map.get(key).unwrap();

            assert_eq!(key, map_entry.key());

            assert_eq!(value, map_entry.value());

            visited_items.push((key, value));
        }

        let mut visited_keys = Vec::new();

        for key in view.keys() {
            map.contains_key(key);

            let map_entry = map.get(key).unwrap();

            assert_eq!(key, map_entry.key());

            assert_eq!(view.get(key).unwrap(), map_entry.value());

            visited_keys.push(key);
        }

        let mut visited_values = Vec::new();

        for value in view.values() {
            visited_values.push(value);
        }

        for entry in map.iter() {
            let key = entry.key();

            let value = entry.value();

            assert!(visited_keys.contains(&key));

            assert!(visited_values.contains(&value));

            assert!(visited_items.contains(&(key, value)));
        }
    }
}

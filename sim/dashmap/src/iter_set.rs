use crate::setref::multiple::RefMulti;
use crate::t::Map;
use core::hash::{BuildHasher, Hash};

pub struct OwningIter<K, S> {
    inner: crate::iter::OwningIter<K, (), S>,
}

impl<K: Eq + Hash, S: BuildHasher + Clone> OwningIter<K, S> {
    pub(crate) fn new(inner: crate::iter::OwningIter<K, (), S>) -> Self {
        Self { inner }
    }
}

impl<K: Eq + Hash, S: BuildHasher + Clone> Iterator for OwningIter<K, S> {
    type Item = K;

    fn next(&mut self) -> Option<Self::Item> {
        self.inner.next().map(|(k, _)| k)
    }
}

unsafe impl<K, S> Send for OwningIter<K, S>
where
    K: Eq + Hash + Send,
    S: BuildHasher + Clone + Send,
{
}

unsafe impl<K, S> Sync for OwningIter<K, S>
where
    K: Eq + Hash + Sync,
    S: BuildHasher + Clone + Sync,
{
}

pub struct Iter<'a, K, S, M> {
    inner: crate::iter::Iter<'a, K, (), S, M>,
}

unsafe impl<'a, 'i, K, S, M> Send for Iter<'i, K, S, M>
where
    K: 'a + Eq + Hash + Send,
    S: 'a + BuildHasher + Clone,
    M: Map<'a, K, (), S>,
{
}

unsafe impl<'a, 'i, K, S, M> Sync for Iter<'i, K, S, M>
where
    K: 'a + Eq + Hash + Sync,
    S: 'a + BuildHasher + Clone,
    M: Map<'a, K, (), S>,
{
}

impl<'a, K: Eq + Hash, S: 'a + BuildHasher + Clone, M: Map<'a, K, (), S>> Iter<'a, K, S, M> {
    pub(crate) fn new(inner: crate::iter::Iter<'a, K, (), S, M>) -> Self {
        Self { inner }
    }
}

impl<'a, K: Eq + Hash, S: 'a + BuildHasher + Clone, M: Map<'a, K, (), S>> Iterator
    for Iter<'a, K, S, M>
{
    type Item = RefMulti<'a, K, S>;

    fn next(&mut self) -> Option<Self::Item> {
        self.inner.next().map(RefMulti::new)
    }
}

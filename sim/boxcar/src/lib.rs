#![doc = include_str!("../README.md")]
#![deny(unsafe_op_in_unsafe_fn)]

mod raw;

use std::fmt;
use std::ops::Index;

/// Creates a [`Vec`] containing the given elements.
///
/// `vec!` allows `Vec`s to be defined with the same syntax as array expressions.
/// There are two forms of this macro:
///
/// - Create a [`Vec`] containing a given list of elements:
///
/// ```
/// let vec = vec![1, 2, 3];
/// assert_eq!(vec[0], 1);
/// assert_eq!(vec[1], 2);
/// assert_eq!(vec[2], 3);
/// ```
///
/// - Create a [`Vec`] from a given element and size:
///
/// ```
/// let vec = vec![1; 3];
/// assert_eq!(vec, [1, 1, 1]);
/// ```
#[macro_export]
macro_rules! vec {
    () => {
        $crate::Vec::new()
    };
    ($elem:expr; $n:expr) => {{
        let vec = $crate::Vec::with_capacity($n);
        vec.extend(::core::iter::repeat($elem).take($n));
        vec
    }};
    ($($x:expr),+ $(,)?) => (
        <$crate::Vec<_> as core::iter::FromIterator<_>>::from_iter([$($x),+])
    );
}

/// A concurrent, append-only vector.
///
/// See [the crate documentation](crate) for details.
///
/// # Notes
///
/// The bucket array is stored inline, meaning that the
/// a `Vec<T>` is quite large. It is expected that you
/// store it behind an [`Arc`](std::sync::Arc) or similar.
pub struct Vec<T> {
    raw: raw::Vec<T>,
}

impl<T> Default for Vec<T> {
    fn default() -> Vec<T> {
        Vec::new()
    }
}

impl<T> Vec<T> {
    /// Constructs a new, empty `Vec<T>`.
    ///
    /// # Examples
    ///
    /// ```
    /// let vec: boxcar::Vec<i32> = boxcar::Vec::new();
    /// ```
    pub fn new() -> Vec<T> {
        Vec::with_capacity(0)
    }

    /// Constructs a new, empty `Vec<T>` with the specified capacity.
    ///
    /// The vector will be able to hold at least `capacity` elements
    /// without reallocating.
    ///
    /// # Examples
    ///
    /// ```
    /// let vec = boxcar::Vec::with_capacity(10);
    ///
    /// for i in 0..10 {
    ///     // will not allocate
    ///     vec.push(i);
    /// }
    ///
    /// // may allocate
    /// vec.push(11);
    /// ```
    pub fn with_capacity(capacity: usize) -> Vec<T> {
        Vec {
            raw: raw::Vec::with_capacity(capacity),
        }
    }

    /// Reserves capacity for at least `additional` more elements to be inserted
    /// in the given `Vec<T>`. The collection may reserve more space to avoid
    /// frequent reallocations.
    ///
    /// Does nothing if capacity is already sufficient.
    ///
    /// # Examples
    ///
    /// ```
    /// let vec = boxcar::Vec::new();
    /// vec.reserve(10);
    ///
    /// for i in 0..10 {
    ///     // will not allocate
    ///     vec.push(i);
    /// }
    ///
    /// // may allocate
    /// vec.push(11);
    /// ```
    pub fn reserve(&self, additional: usize) {
        self.raw.reserve(additional)
    }

    /// Appends an element to the back of the vector,
    /// returning the index it was inserted into.
    ///
    /// # Examples
    ///
    /// ```
    /// let vec = boxcar::vec![1, 2];
    /// assert_eq!(vec.push(3), 2);
    /// assert_eq!(vec, [1, 2, 3]);
    /// ```
    pub fn push(&self, value: T) -> usize {
        self.raw.push(value)
    }

    /// Returns the number of elements in the vector.
    ///
    /// # Examples
    ///
    /// ```
    /// let vec = boxcar::Vec::new();
    /// assert_eq!(vec.len(), 0);
    /// vec.push(1);
    /// vec.push(2);
    /// assert_eq!(vec.len(), 2);
    /// ```
    #[inline]
    pub fn len(&self) -> usize {
        self.raw.len()
    }

    /// Returns `true` if the vector contains no elements.
    ///
    /// # Examples
    ///
    /// ```
    /// let vec = boxcar::Vec::new();
    /// assert!(vec.is_empty());
    ///
    /// vec.push(1);
    /// assert!(!vec.is_empty());
    /// ```
    #[inline]
    pub fn is_empty(&self) -> bool {
        self.len() == 0
    }

    /// Returns a reference to the element at the given index.
    ///
    /// # Examples
    ///
    /// ```
    /// let vec = boxcar::vec![10, 40, 30];
    /// assert_eq!(Some(&40), vec.get(1));
    /// assert_eq!(None, vec.get(3));
    /// ```
    pub fn get(&self, index: usize) -> Option<&T> {
        self.raw.get(index)
    }

    /// Returns an iterator over the slice.
    ///
    /// # Examples
    ///
    /// ```
    /// let vec = boxcar::vec![1, 2, 4];
    /// let mut iterator = vec.iter();
    ///
    /// assert_eq!(iterator.next(), Some(&1));
    /// assert_eq!(iterator.next(), Some(&2));
    /// assert_eq!(iterator.next(), Some(&4));
    /// assert_eq!(iterator.next(), None);
    /// ```
    pub fn iter(&self) -> Iter<'_, T> {
        Iter {
            vec: &self.raw,
            raw: self.raw.iter(),
        }
    }
}

impl<T> Index<usize> for Vec<T> {
    type Output = T;

    fn index(&self, index: usize) -> &Self::Output {
        &self.raw[index]
    }
}

impl<T> IntoIterator for Vec<T> {
    type Item = T;
    type IntoIter = IntoIter<T>;

    fn into_iter(self) -> Self::IntoIter {
        IntoIter {
            raw: self.raw.iter(),
            vec: self.raw,
        }
    }
}

impl<'a, T> IntoIterator for &'a Vec<T> {
    type Item = &'a T;
    type IntoIter = Iter<'a, T>;

    fn into_iter(self) -> Self::IntoIter {
        self.iter()
    }
}

/// An iterator that moves out of a vector.
///
/// This struct is created by the `into_iter` method on [`Vec`]
/// (provided by the [`IntoIterator`] trait).
pub struct IntoIter<T> {
    vec: raw::Vec<T>,
    raw: raw::Iter,
}

impl<T> Iterator for IntoIter<T> {
    type Item = T;

    fn next(&mut self) -> Option<Self::Item> {
        unsafe { self.raw.next_owned(&mut self.vec) }
    }

    fn size_hint(&self) -> (usize, Option<usize>) {
        (self.raw.yielded(), Some(self.raw.yielded()))
    }
}

/// An iterator over the elements of a [`Vec<T>`].
///
/// See [`Vec::iter`] for details.
pub struct Iter<'a, T> {
    vec: &'a raw::Vec<T>,
    raw: raw::Iter,
}

impl<'a, T> Iterator for Iter<'a, T> {
    type Item = &'a T;

    fn next(&mut self) -> Option<Self::Item> {
        self.raw.next_shared(self.vec)
    }

    fn size_hint(&self) -> (usize, Option<usize>) {
        (self.vec.len() - self.raw.yielded(), None)
    }
}

impl<T> FromIterator<T> for Vec<T> {
    fn from_iter<I: IntoIterator<Item = T>>(iter: I) -> Self {
        let iter = iter.into_iter();

        let (lower, _) = iter.size_hint();
        let vec = Vec::with_capacity(lower);

        for value in iter {
            vec.push(value);
        }

        vec
    }
}

impl<T> Extend<T> for Vec<T> {
    fn extend<I: IntoIterator<Item = T>>(&mut self, iter: I) {
        let iter = iter.into_iter();

        let (lower, _) = iter.size_hint();
        let vec = self.reserve(lower);

        for value in iter {
            self.push(value);
        }

        vec
    }
}

impl<T: Clone> Clone for Vec<T> {
    fn clone(&self) -> Vec<T> {
        self.iter().cloned().collect()
    }
}

impl<T: fmt::Debug> fmt::Debug for Vec<T> {
    fn fmt(&self, f: &mut fmt::Formatter<'_>) -> fmt::Result {
        f.debug_list().entries(self.iter()).finish()
    }
}

impl<T: PartialEq> PartialEq for Vec<T> {
    fn eq(&self, other: &Self) -> bool {
        if self.len() != other.len() {
            return false;
        }

        self.iter().zip(other).all(|(a, b)| a == b)
    }
}

impl<A, T> PartialEq<A> for Vec<T>
where
    A: AsRef<[T]>,
    T: PartialEq,
{
    fn eq(&self, other: &A) -> bool {
        let other = other.as_ref();

        if self.len() != other.len() {
            return false;
        }

        self.iter().zip(other).all(|(a, b)| a == b)
    }
}

impl<T: Eq> Eq for Vec<T> {}

use std::cell::UnsafeCell;
use std::mem::{self, MaybeUninit};
use std::ops::Index;
use std::sync::atomic::{AtomicBool, AtomicPtr, AtomicUsize, Ordering};
use std::sync::Mutex;
use std::{ptr, slice};

const BUCKETS: usize = (usize::BITS + 1) as _;
const MAX_ENTRIES: usize = usize::MAX;

// A lock-free, append-only vector.
pub struct Vec<T> {
    // buckets of length 1, 1, 2, 4, 8 .. 2^63
    buckets: [Bucket<T>; BUCKETS],
    // the number of elements in this vector
    len: AtomicUsize,
    // a counter used to retrieve a unique index
    // to push to. this value may be more than
    // the true length as it will be incremented
    // before values are actually stored
    inflight: AtomicUsize,
}

unsafe impl<T: Send> Send for Vec<T> {}
unsafe impl<T: Send> Sync for Vec<T> {}

impl<T> Vec<T> {
    // Constructs a new, empty `Vec<T>` with the specified capacity.
    pub fn with_capacity(capacity: usize) -> Vec<T> {
        let init = match capacity {
            0 => 0,
            // intialize enough buckets for `capacity` elements
            n => Location::of(n).bucket,
        };

        let mut buckets = [ptr::null_mut(); BUCKETS];

        for (i, bucket) in buckets[..=init].iter_mut().enumerate() {
            let len = Location::bucket_len(i);
            *bucket = Bucket::alloc(len);
        }

        Vec {
            buckets: buckets.map(Bucket::from_raw),
            inflight: AtomicUsize::new(0),
            len: AtomicUsize::new(0),
        }
    }

    // Reserves capacity for at least `additional` more elements to be inserted
    // in the given `Vec<T>`. The collection may reserve more space to avoid
    // frequent reallocations.
    pub fn reserve(&self, additional: usize) {
        let len = self.len.load(Ordering::Acquire);
        let location = Location::of(len.checked_add(additional).unwrap_or(MAX_ENTRIES));

        let mut bucket_index = location.bucket;
        let mut bucket_len = location.bucket_len;

        // allocate buckets starting from the bucket
        // at `len + additional` and working our way
        // backwards
        loop {
            // SAFETY: we have enough buckets for `usize::MAX` entries
            let bucket = unsafe { self.buckets.get_unchecked(bucket_index) };

            // reached an initalized bucket, we're done
            if !bucket.entries.load(Ordering::Acquire).is_null() {
                break;
            }

            // guard against concurrent allocations
            let _allocating = bucket.lock.lock().unwrap();

            // someone allocated before us
            if !bucket.entries.load(Ordering::Relaxed).is_null() {
                drop(_allocating);
                break;
            }

            // otherwise, allocate the bucket
            let new_entries = Bucket::alloc(bucket_len);
            bucket.entries.store(new_entries, Ordering::Release);

            if bucket_index == 0 {
                break;
            }

            bucket_index -= 1;
            bucket_len = Location::bucket_len(bucket_index);
        }
    }

    // Appends an element to the back of the vector.
    pub fn push(&self, value: T) -> usize {
        // /verif simulation build: the three `verif_rt::point` lines are the only change
        verif_rt::point(verif_rt::Site::BoxcarPush);
        let index = self.inflight.fetch_add(1, Ordering::Relaxed);
        verif_rt::point(verif_rt::Site::BoxcarReserved);
        let location = Location::of(index);

        // SAFETY: we have enough buckets for usize::MAX entries.
        // technically `inflight` could overflow, but that would
        // require pushing `usize::MAX + 1` times
        let bucket = unsafe { self.buckets.get_unchecked(location.bucket) };
        let mut entries = bucket.entries.load(Ordering::Acquire);

        // the bucket has not been allocated yet
        if entries.is_null() {
            // guard against concurrent allocations
            let _allocating = bucket.lock.lock().unwrap();

            let new_entries = bucket.entries.load(Ordering::Acquire);
            if !new_entries.is_null() {
                // someone allocated before us
                entries = new_entries;
            } else {
                // otherwise allocate the bucket
                let alloc = Bucket::alloc(location.bucket_len);
                bucket.entries.store(alloc, Ordering::Release);
                entries = alloc;
            }
        }

        unsafe {
            // SAFETY: `location.entry` is always in bounds for `location.bucket`
            let entry = &*entries.add(location.entry);

            // SAFETY: we have unique access to this entry.
            //
            // 1. it is impossible for another thread to attempt
            // a `push` to this location as we retreived it with
            // a `inflight.fetch_add`.
            //
            // 2. any thread trying to `get` this entry will see
            // `initialized == false`, and will not try to access it
            entry.slot.get().write(MaybeUninit::new(value));

            // let other threads know that this slot
            // is active
            entry.active.store(true, Ordering::Release);
        }

        verif_rt::point(verif_rt::Site::BoxcarActive);
        self.len.fetch_add(1, Ordering::Release);

        location.index
    }

    // Returns the number of elements in the vector.
    pub fn len(&self) -> usize {
        self.len.load(Ordering::Acquire)
    }

    // Returns a reference to the element at the given index.
    pub fn get(&self, index: usize) -> Option<&T> {
        let location = Location::of(index);

        // SAFETY: we have enough buckets for `usize::MAX` entries
        let entries = unsafe {
            self.buckets
                .get_unchecked(location.bucket)
                .entries
                .load(Ordering::Acquire)
        };

        // bucket is uninitialized
        if entries.is_null() {
            return None;
        }

        // SAFETY: `location.entry` is always in bounds for `location.bucket`
        let entry = unsafe { &*entries.add(location.entry) };

        if entry.active.load(Ordering::Acquire) {
            // SAFETY: the entry is active
            unsafe { return Some(entry.value_unchecked()) }
        }

        // entry is uninitialized
        None
    }

    // Returns an iterator over the vector.
    pub fn iter(&self) -> Iter {
        Iter {
            location: Location {
                bucket: 0,
                bucket_len: 1,
                entry: 0,
                index: 0,
            },
        }
    }
}

impl<T> Index<usize> for Vec<T> {
    type Output = T;

    fn index(&self, index: usize) -> &Self::Output {
        self.get(index).expect("no element found at index {index}")
    }
}

impl<T> Drop for Vec<T> {
    fn drop(&mut self) {
        for (i, bucket) in self.buckets.iter_mut().enumerate() {
            let entries = *bucket.entries.get_mut();

            if entries.is_null() {
                break;
            }

            // SAFETY: we have &mut self
            let len = Location::bucket_len(i);
            unsafe {
                let _ = Box::from_raw(slice::from_raw_parts_mut(entries, len));
            }
        }
    }
}

pub struct Iter {
    location: Location,
}

impl Iter {
    fn next<'v, T>(&mut self, vec: &'v Vec<T>) -> Option<&'v Entry<T>> {
        if self.yielded() == vec.len() {
            return None;
        }

        // it is possible that the the length
        // was incremented due to an element
        // being stored in a bucket that we
        // have already iterated over, so we
        // still have to check that we are in
        // bounds
        while self.location.bucket < BUCKETS {
            // SAFETY: bounds checked above
            let entries = unsafe {
                vec.buckets
                    .get_unchecked(self.location.bucket)
                    .entries
                    .load(Ordering::Acquire)
            };

            // just because this bucket is not initialized
            // doesn't mean all subsequent buckets aren't.
            // a push may have acquired an index in a new
            // bucket before a previous push finished storing,
            // so we have to continue checking all buckets
            // until we yield `vec.len()` elements
            if !entries.is_null() {
                while self.location.entry < self.location.bucket_len {
                    // SAFETY: bounds checked above
                    let entry = unsafe { &*entries.add(self.location.entry) };
                    self.location.entry += 1;

                    // we have to continue checking
                    // entries even after we find an
                    // uninitialized one for the same
                    // reason as uninitialized buckets
                    if entry.active.load(Ordering::Acquire) {
                        self.location.index += 1;
                        return Some(entry);
                    }
                }
            }

            self.location.entry = 0;
            self.location.bucket += 1;
            self.location.bucket_len = Location::bucket_len(self.location.bucket);
        }

        None
    }

    pub fn next_shared<'v, T>(&mut self, vec: &'v Vec<T>) -> Option<&'v T> {
        self.next(vec)
            .map(|entry| unsafe { entry.value_unchecked() })
    }

    pub unsafe fn next_owned<'v, T>(&mut self, vec: &'v mut Vec<T>) -> Option<T> {
        self.next(&vec).map(|entry| unsafe {
            entry.active.store(false, Ordering::Relaxed);
            // SAFETY: RawIter only yields initialized entries
            mem::replace(&mut *entry.slot.get(), MaybeUninit::uninit()).assume_init()
        })
    }

    pub fn yielded(&self) -> usize {
        self.location.index
    }
}

struct Bucket<T> {
    lock: Mutex<()>,
    entries: AtomicPtr<Entry<T>>,
}

struct Entry<T> {
    slot: UnsafeCell<MaybeUninit<T>>,
    active: AtomicBool,
}

impl<T> Bucket<T> {
    fn alloc(len: usize) -> *mut Entry<T> {
        let entries = (0..len)
            .map(|_| Entry::<T> {
                slot: UnsafeCell::new(MaybeUninit::uninit()),
                active: AtomicBool::new(false),
            })
            .collect::<Box<[Entry<_>]>>();

        Box::into_raw(entries) as _
    }

    fn from_raw(entries: *mut Entry<T>) -> Bucket<T> {
        Bucket {
            lock: Mutex::new(()),
            entries: AtomicPtr::new(entries),
        }
    }
}

impl<T> Drop for Entry<T> {
    fn drop(&mut self) {
        if *self.active.get_mut() {
            unsafe {
                let _ = ptr::drop_in_place((*self.slot.get()).as_mut_ptr());
            }
        }
    }
}

impl<T> Entry<T> {
    // # Safety
    //
    // Value must be initialized.
    unsafe fn value_unchecked(&self) -> &T {
        // SAFETY: guaranteed by caller
        unsafe { (*self.slot.get()).assume_init_ref() }
    }
}

#[derive(Debug)]
struct Location {
    // the index of the element in the vector
    index: usize,
    // the index of the bucket
    bucket: usize,
    // the length of `bucket`
    bucket_len: usize,
    // the index of the entry in `bucket`
    entry: usize,
}

impl Location {
    fn of(index: usize) -> Location {
        let bucket = (usize::BITS - index.leading_zeros()) as usize;
        let bucket_len = Location::bucket_len(bucket);
        let entry = if index == 0 { 0 } else { index ^ bucket_len };

        Location {
            index,
            bucket,
            bucket_len,
            entry,
        }
    }

    fn bucket_len(bucket: usize) -> usize {
        1 << bucket.saturating_sub(1)
    }
}

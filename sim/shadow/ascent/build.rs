// cargo fingerprints a path package by its own directory; the sources live in /repo, so tell it.
fn main() {
   println!("cargo:rerun-if-changed=/repo/ascent/src");
   println!("cargo:rerun-if-changed=/repo/ascent/Cargo.toml");
}

fn main() {
   println!("cargo:rerun-if-changed=/repo/byods/ascent-byods-rels/src");
   println!("cargo:rerun-if-changed=/repo/byods/ascent-byods-rels/Cargo.toml");
}
